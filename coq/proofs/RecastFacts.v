(* RecastFacts.v — recast after melt gives back every row, cell for cell.
   melt turns a row  k ++ vals  (nk key cells, one value per variable name) into the rows  k ++ [name_j; val_j];
   recast sorts the melted table by the key, groups it, and builds for every group the row  key cells ++ [cell per variable].
   For tables whose keys are pairwise different the group of a key is exactly the melt of the one row carrying it, and the
   cell computed for variable name_j is val_j: no value is lost, merged into a list, or replaced by `missing`. *)
From Verif Require Import PyVal Rows Order CmpFacts ComparableGen ComparableFacts OrderTools AsIndicesGen Sort SortFacts
     Basics Dedup Joins Relational JoinFacts JoinRel Reductions ReduceFacts MergeFacts Reshape.
From Coq Require Import Lia Permutation Sorted.
Open Scope Z_scope.

(* names pairwise different under ==, each equal to itself (no NaN among the field names) *)
Fixpoint distinct_names (l : list val) : Prop :=
  match l with
  | [] => True
  | n :: t => py_eq n n = true /\ Forall (fun m => py_eq n m = false /\ py_eq m n = false) t /\ distinct_names t
  end.

Section Row.
  Variable names : list val.
  Variable missing : val.

  Definition melt_row (k vals : row) : list row := map (fun p => k ++ [fst p; snd p]) (combine names vals).

  Definition lookup (variable : val) (pairs : list (val * val)) : list val :=
    map snd (filter (fun p => py_eq (fst p) variable) pairs).
  Definition collapse (vals : list val) : val := match vals with [] => missing | [x] => x | _ => VSeq true vals end.

  Lemma py_nth_after (k : row) (a b : val) :
    py_nth (k ++ [a; b]) (Z.of_nat (length k)) = Some a /\ py_nth (k ++ [a; b]) (Z.of_nat (length k) + 1) = Some b.
  Proof.
    unfold py_nth, zlen. rewrite app_length. cbn [length]. split.
    - replace (Z.of_nat (length k) <? 0) with false by (symmetry; apply Z.ltb_ge; lia).
      replace ((Z.of_nat (length k) <? 0) || (Z.of_nat (length k + 2) <=? Z.of_nat (length k))) with false
        by (symmetry; apply Bool.orb_false_iff; split; [apply Z.ltb_ge | apply Z.leb_gt]; lia).
      rewrite Nat2Z.id, nth_error_app2 by lia. rewrite Nat.sub_diag. reflexivity.
    - replace (Z.of_nat (length k) + 1 <? 0) with false by (symmetry; apply Z.ltb_ge; lia).
      replace ((Z.of_nat (length k) + 1 <? 0) || (Z.of_nat (length k + 2) <=? Z.of_nat (length k) + 1)) with false
        by (symmetry; apply Bool.orb_false_iff; split; [apply Z.ltb_ge | apply Z.leb_gt]; lia).
      replace (Z.to_nat (Z.of_nat (length k) + 1)) with (S (length k)) by lia.
      rewrite nth_error_app2 by lia. replace (S (length k) - length k)%nat with 1%nat by lia. reflexivity.
  Qed.

  Lemma pairs_of_melt_row (k vals : row) :
    all_some (map (fun r => match py_nth r (Z.of_nat (length k)), py_nth r (Z.of_nat (length k) + 1) with
                            | Some a, Some b => Some (a, b)
                            | _, _ => None end) (melt_row k vals)) = Some (combine names vals).
  Proof.
    unfold melt_row. induction (combine names vals) as [|[n v] t IH]; [reflexivity|].
    cbn [map all_some fst snd]. destruct (py_nth_after k n v) as [Ha Hb]. rewrite Ha, Hb. rewrite IH. reflexivity.
  Qed.

  (* the cell recast computes for a variable, on the melt of one row *)
  Lemma recast_cell_melted (k vals : row) variable :
    recast_cell (Z.of_nat (length k)) (Z.of_nat (length k) + 1) missing (melt_row k vals) variable
    = Ok (collapse (lookup variable (combine names vals))).
  Proof. unfold recast_cell. rewrite pairs_of_melt_row. reflexivity. Qed.
End Row.

(* with pairwise different names, the values found for name_j are exactly [val_j] *)
Lemma lookup_distinct : forall (names : list val) (vals : row) (j : nat) n v,
  distinct_names names -> length vals = length names ->
  nth_error names j = Some n -> nth_error vals j = Some v ->
  lookup n (combine names vals) = [v].
Proof.
  induction names as [|n0 names IH]; intros vals j n v Hd Hlen Hn Hv; [destruct j; discriminate|].
  destruct vals as [|v0 vals]; [discriminate|]. cbn in Hlen. destruct Hd as (Hrefl & Hall & Hd).
  unfold lookup in *. cbn [combine filter fst].
  destruct j as [|j]; cbn in Hn, Hv.
  - inversion Hn; inversion Hv; subst. rewrite Hrefl. cbn [map snd]. f_equal.
    assert (E : filter (fun p : val * val => py_eq (fst p) n) (combine names vals) = []).
    { clear - Hall. revert vals. induction names as [|m names IH]; intros vals; [reflexivity|].
      destruct vals as [|w vals]; [reflexivity|]. inversion Hall as [|? ? [_ Hm] Hall']; subst.
      cbn [combine filter fst]. rewrite Hm. apply IH. exact Hall'. }
    rewrite E. reflexivity.
  - assert (Hin : In n names) by (eapply nth_error_In; eauto).
    rewrite Forall_forall in Hall. destruct (Hall n Hin) as [H0 _]. rewrite H0.
    apply (IH vals j n v Hd); auto; lia.
Qed.

Lemma lookup_absent : forall (names : list val) (vals : row) n,
  Forall (fun m => py_eq m n = false) names -> lookup n (combine names vals) = [].
Proof.
  induction names as [|m names IH]; intros vals n H; [reflexivity|]. destruct vals as [|w vals]; [reflexivity|].
  inversion H; subst. unfold lookup in *. cbn [combine filter fst]. rewrite H2. apply IH. assumption.
Qed.

(* the whole value part of the recast row: variables given by their positions among the names *)
Theorem recast_cells_of_melted_row (names : list val) (missing : val) (k vals : row) (js : list nat) :
  distinct_names names -> length vals = length names -> Forall (fun j => (j < length names)%nat) js ->
  mapM (recast_cell (Z.of_nat (length k)) (Z.of_nat (length k) + 1) missing (melt_row names k vals))
       (map (fun j => nth j names VNone) js)
  = Ok (map (fun j => nth j vals VNone) js).
Proof.
  intros Hd Hlen Hjs. induction Hjs as [|j js Hj _ IH]; [reflexivity|].
  cbn [map mapM]. rewrite recast_cell_melted.
  assert (Hn : nth_error names j = Some (nth j names VNone)) by (apply nth_error_nth'; exact Hj).
  assert (Hv : nth_error vals j = Some (nth j vals VNone)) by (apply nth_error_nth'; lia).
  rewrite (lookup_distinct names vals j _ _ Hd Hlen Hn Hv). cbn [collapse]. rewrite IH. reflexivity.
Qed.

(* ---- indexing into the key prefix ------------------------------------------------------------------------------------ *)
Lemma py_nth_prefix_gen (k rest : row) : forall (pre : row),
  map (py_nth (pre ++ k ++ rest)) (zrange (length k) (Z.of_nat (length pre))) = map Some k.
Proof.
  induction k as [|x t IH]; intros pre; [reflexivity|]. cbn [length zrange map]. f_equal.
  - unfold py_nth, zlen. rewrite !app_length. cbn [length].
    replace (Z.of_nat (length pre) <? 0) with false by (symmetry; apply Z.ltb_ge; lia).
    replace ((Z.of_nat (length pre) <? 0) || (Z.of_nat (length pre + (S (length t) + length rest)) <=? Z.of_nat (length pre)))
      with false by (symmetry; apply Bool.orb_false_iff; split; [apply Z.ltb_ge | apply Z.leb_gt]; lia).
    rewrite Nat2Z.id, nth_error_app2 by lia. rewrite Nat.sub_diag. reflexivity.
  - specialize (IH (pre ++ [x])). rewrite <- app_assoc in IH. cbn [app] in IH. rewrite app_length in IH. cbn [length] in IH.
    replace (Z.of_nat (length pre) + 1) with (Z.of_nat (length pre + 1)) by lia. exact IH.
Qed.

Lemma py_nth_prefix (k rest : row) : map (py_nth (k ++ rest)) (zrange (length k) 0) = map Some k.
Proof. exact (py_nth_prefix_gen k rest []). Qed.

Lemma cells_prefix (k rest : row) : map (cell_or_default (k ++ rest)) (zrange (length k) 0) = k.
Proof.
  assert (E : map (cell_or_default (k ++ rest)) (zrange (length k) 0)
              = map (fun o => match o with Some v => v | None => missing_key_default end)
                    (map (py_nth (k ++ rest)) (zrange (length k) 0))).
  { rewrite map_map. reflexivity. }
  rewrite E, py_nth_prefix, map_map. cbn. apply map_id.
Qed.

Lemma all_some_map_Some {A} (l : list A) : all_some (map Some l) = Some l.
Proof. induction l as [|x t IH]; cbn; [reflexivity|]. rewrite IH. reflexivity. Qed.

(* the key of a row is the key of its key prefix, whatever follows *)
Lemma getkey_prefix (k rest : row) : (1 <= length k)%nat ->
  getkey (zrange (length k) 0) (k ++ rest) = getkey (zrange (length k) 0) k.
Proof.
  intros Hk. destruct k as [|x [|y t]]; [cbn in Hk; lia | reflexivity |].
  rewrite !getkey_multi by (rewrite zrange_length; cbn [length]; lia).
  rewrite cells_prefix. rewrite <- (app_nil_r (x :: y :: t)) at 2. rewrite cells_prefix. reflexivity.
Qed.

(* the key cells recast reads off the first row of a group are the key prefix itself *)
Lemma raw_key_cells (k rest : row) : (1 <= length k)%nat ->
  exists kv, raw_getkey (zrange (length k) 0) (k ++ rest) = Some kv /\
             match zrange (length k) 0 with [_] => [kv] | _ => match kv with VSeq _ l => l | x => [x] end end = k.
Proof.
  intros Hk. destruct k as [|x [|y t]]; [cbn in Hk; lia | |].
  - exists x. split; reflexivity.
  - exists (VSeq false (x :: y :: t)). split; [|reflexivity].
    unfold raw_getkey. change (zrange (length (x :: y :: t)) 0) with (0 :: 1 :: zrange (length t) 2).
    change (0 :: 1 :: zrange (length t) 2) with (zrange (length (x :: y :: t)) 0).
    rewrite py_nth_prefix, all_some_map_Some. reflexivity.
Qed.

(* ---- one group = the melt of one row ---------------------------------------------------------------------------------- *)
Theorem recast_group_of_melted_row (names : list val) (missing : val) (k vals : row) (js : list nat) (gk : val) :
  (1 <= length k)%nat -> names <> [] -> distinct_names names -> length vals = length names ->
  Forall (fun j => (j < length names)%nat) js ->
  recast_group (zrange (length k) 0) (Z.of_nat (length k)) (Z.of_nat (length k) + 1) missing
               (map (fun j => nth j names VNone) js) (gk, melt_row names k vals)
  = Ok (k ++ map (fun j => nth j vals VNone) js).
Proof.
  intros Hk Hne Hd Hlen Hjs. unfold recast_group. cbn [snd].
  destruct names as [|n0 names']; [congruence|]. destruct vals as [|v0 vals']; [discriminate|].
  set (ns := n0 :: names') in *. set (vs := v0 :: vals') in *.
  assert (Hm : melt_row ns k vs = (k ++ [n0; v0]) :: map (fun p => k ++ [fst p; snd p]) (combine names' vals')) by reflexivity.
  rewrite Hm. destruct (raw_key_cells k [n0; v0] Hk) as [kv [Hraw Hcells]]. rewrite Hraw.
  rewrite <- Hm. rewrite (recast_cells_of_melted_row ns missing k vs js Hd Hlen Hjs).
  destruct (zrange (length k) 0) as [|i [|i' r]] eqn:Ez; rewrite Hcells; reflexivity.
Qed.

(* ---- the table ---------------------------------------------------------------------------------------------------------- *)
Section Table.
  Variable nk : nat.
  Variable names : list val.
  Variable missing : val.
  Hypothesis nk_pos : (1 <= nk)%nat.
  Hypothesis names_nonempty : names <> [].
  Hypothesis names_distinct : distinct_names names.

  Let kidx := zrange nk 0.
  Definition melt_of (r : row) : list row := melt_row names (firstn nk r) (skipn nk r).
  Definition wide (r : row) : Prop := length r = (nk + length names)%nat.

  Lemma firstn_len r : wide r -> length (firstn nk r) = nk.
  Proof. unfold wide. intros H. rewrite firstn_length. lia. Qed.
  Lemma skipn_len r : wide r -> length (skipn nk r) = length names.
  Proof. unfold wide. intros H. rewrite skipn_length. lia. Qed.

  Lemma key_of_row r : wide r -> getkey kidx r = getkey kidx (firstn nk r).
  Proof.
    intros H. pose proof (firstn_len r H) as Hl. rewrite <- (firstn_skipn nk r) at 1.
    remember (firstn nk r) as k. remember (skipn nk r) as rest. unfold kidx. rewrite <- Hl.
    apply getkey_prefix. lia.
  Qed.

  Lemma key_of_melted r m : wide r -> In m (melt_of r) -> getkey kidx m = getkey kidx r.
  Proof.
    intros H Hm. unfold melt_of, melt_row in Hm. apply in_map_iff in Hm. destruct Hm as [p [E _]]. subst m.
    rewrite (key_of_row r H). pose proof (firstn_len r H) as Hl.
    remember (firstn nk r) as k. unfold kidx. rewrite <- Hl. apply getkey_prefix. lia.
  Qed.

  Lemma melt_of_nonempty r : wide r -> melt_of r <> [].
  Proof.
    intros H. unfold melt_of, melt_row. pose proof (skipn_len r H) as Hl.
    destruct names as [|n ns]; [congruence|]. destruct (skipn nk r) as [|v vs]; [discriminate|]. discriminate.
  Qed.

  Lemma filter_melted kv rows : Forall wide rows ->
    filter (fun m => ceq (getkey kidx m) kv) (flat_map melt_of rows)
    = flat_map melt_of (filter (fun r => ceq (getkey kidx r) kv) rows).
  Proof.
    induction 1 as [|r rows Hr _ IH]; [reflexivity|]. cbn [flat_map filter]. rewrite filter_app, IH.
    destruct (ceq (getkey kidx r) kv) eqn:E.
    - rewrite (filter_all _ (melt_of r)); [reflexivity|]. intros m Hm. rewrite (key_of_melted r m Hr Hm). exact E.
    - rewrite (filter_none _ (melt_of r)); [reflexivity|]. intros m Hm. rewrite (key_of_melted r m Hr Hm). exact E.
  Qed.

  Definition unique_keys (rows : list row) : Prop :=
    ForallOrdPairs (fun a b => ceq (getkey kidx a) (getkey kidx b) = false) rows.

  Lemma only_row_with_key kv rows r0 : unique_keys rows -> In r0 rows -> ceq (getkey kidx r0) kv = true ->
    filter (fun r => ceq (getkey kidx r) kv) rows = [r0].
  Proof.
    induction 1 as [|r rows Hall _ IH]; intros Hin Hk; [destruct Hin|]. cbn [filter]. destruct Hin as [E|Hin].
    - subst r0. rewrite Hk. f_equal. apply filter_none. intros x Hx.
      rewrite Forall_forall in Hall. specialize (Hall x Hx).
      destruct (ceq (getkey kidx x) kv) eqn:Ex; [|reflexivity].
      assert (T : ceq (getkey kidx r) (getkey kidx x) = true).
      { eapply ceq_trans; [exact Hk|]. rewrite ceq_sym. exact Ex. }
      congruence.
    - rewrite Forall_forall in Hall. pose proof (Hall r0 Hin) as Hd.
      destruct (ceq (getkey kidx r) kv) eqn:Er.
      + assert (T : ceq (getkey kidx r) (getkey kidx r0) = true).
        { eapply ceq_trans; [exact Er|]. rewrite ceq_sym. exact Hk. }
        congruence.
      + apply IH; assumption.
  Qed.

  (* recast after melt: one output row per input row, ascending keys, every cell in place *)
  Theorem recast_melt (bs : option nat) (rows : list row) (js : list nat) :
    (forall b, bs = Some b -> (1 <= b)%nat) ->
    Forall wide rows -> unique_keys rows -> Forall (fun j => (j < length names)%nat) js ->
    let gs := groupby (getkey kidx) (sort_data (row_leb false kidx) bs (flat_map melt_of rows)) in
    grp_sorted gs
    /\ (forall g, In g gs -> exists r, In r rows /\ ceq (getkey kidx r) (fst g) = true /\
          recast_group kidx (Z.of_nat nk) (Z.of_nat nk + 1) missing (map (fun j => nth j names VNone) js) g
          = Ok (firstn nk r ++ map (fun j => nth j (skipn nk r) VNone) js))
    /\ (forall r, In r rows -> exists g, In g gs /\ ceq (getkey kidx r) (fst g) = true).
  Proof.
    intros Hb Hw Hu Hjs gs.
    destruct (rowgroupby_groups kidx bs (flat_map melt_of rows) Hb) as [Hperm [Hsorted Hgrp]]. fold gs in Hperm, Hsorted, Hgrp.
    assert (Hwin : forall r, In r rows -> wide r) by (rewrite Forall_forall in Hw; exact Hw).
    split; [exact Hsorted|split].
    - intros g Hg. destruct (Hgrp g Hg) as [Eg Hne].
      destruct (snd g) as [|m rest] eqn:Es; [congruence|].
      assert (Hm : In m (filter (fun m => ceq (getkey kidx m) (fst g)) (flat_map melt_of rows))) by (rewrite <- Eg; left; reflexivity).
      apply filter_In in Hm. destruct Hm as [Hmin Hmk]. apply in_flat_map in Hmin. destruct Hmin as [r0 [Hr0 Hm0]].
      rewrite (key_of_melted r0 m (Hwin r0 Hr0) Hm0) in Hmk.
      exists r0. split; [exact Hr0|split; [exact Hmk|]].
      assert (Esnd : snd g = melt_of r0).
      { rewrite Es, Eg, (filter_melted (fst g) rows Hw), (only_row_with_key (fst g) rows r0 Hu Hr0 Hmk).
        cbn [flat_map]. apply app_nil_r. }
      destruct g as [gk grows]. cbn [snd fst] in *. subst grows. rewrite Esnd.
      pose proof (firstn_len r0 (Hwin r0 Hr0)) as Hfl. pose proof (skipn_len r0 (Hwin r0 Hr0)) as Hsl.
      unfold melt_of. remember (firstn nk r0) as k. remember (skipn nk r0) as vals. unfold kidx. rewrite <- Hfl.
      apply recast_group_of_melted_row; auto. lia.
    - intros r Hr. pose proof (melt_of_nonempty r (Hwin r Hr)) as Hne.
      destruct (melt_of r) as [|m rest] eqn:Em; [congruence|].
      assert (Hmin : In m (flat_map melt_of rows)) by (apply in_flat_map; exists r; split; [exact Hr|rewrite Em; left; reflexivity]).
      assert (Hmg : In m (concat (map snd gs))) by (eapply Permutation_in; [apply Permutation_sym; exact Hperm|exact Hmin]).
      apply in_concat in Hmg. destruct Hmg as [l [Hl Hml]]. apply in_map_iff in Hl. destruct Hl as [g [El Hg]]. subst l.
      exists g. split; [exact Hg|]. destruct (Hgrp g Hg) as [Eg _]. rewrite Eg in Hml. apply filter_In in Hml.
      destruct Hml as [_ Hk]. rewrite <- (key_of_melted r m (Hwin r Hr)); [exact Hk|rewrite Em; left; reflexivity].
  Qed.
End Table.
