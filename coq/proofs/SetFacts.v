(* SetFacts.v — multiset algebra of the Counter-based set operations (hashcomplement / hashintersection). *)
From Verif Require Import PyVal Rows Order CmpFacts SortSpec SetOps SetSpec DedupFacts.
From Coq Require Import Lia.
Open Scope Z_scope.

(* == is an equivalence on the modelled values *)
Lemma is_eq_refl {A} (c : A -> A -> comparison) a : c_antisym c a -> is_eq (c a a) = true.
Proof. intros H. rewrite (c_refl c a H). reflexivity. Qed.

Lemma py_eq_refl a : py_eq a a = true.
Proof.
  induction a as [ | k x | x | x | x | x | x | i l IH ] using val_ind'; cbn [py_eq native_scalar_eq]; auto.
  - apply is_eq_refl. apply xq_cmp_good.
  - apply is_eq_refl. apply zl_cmp_good.
  - apply is_eq_refl. apply zl_cmp_good.
  - apply Z.eqb_refl.
  - apply Z.eqb_refl.
  - apply Z.eqb_refl.
  - rewrite Bool.eqb_reflx. simpl. induction IH as [|x xs Hx _ IHl]; auto. rewrite Hx, IHl. reflexivity.
Qed.

Lemma is_eq_trans {A} (c : A -> A -> comparison) a b d :
  c_eql c a -> is_eq (c a b) = true -> is_eq (c b d) = true -> is_eq (c a d) = true.
Proof.
  intros H H1 H2. destruct (c a b) eqn:E; try discriminate. rewrite (H b d E). exact H2.
Qed.

Lemma py_eq_trans a : forall b d, py_eq a b = true -> py_eq b d = true -> py_eq a d = true.
Proof.
  induction a as [ | k x | x | x | x | x | x | i l IH ] using val_ind'; intros b d; destruct b; try discriminate;
    destruct d; try discriminate; cbn [py_eq native_scalar_eq]; auto.
  - apply is_eq_trans. apply xq_cmp_good.
  - apply is_eq_trans. apply zl_cmp_good.
  - apply is_eq_trans. apply zl_cmp_good.
  - rewrite !Z.eqb_eq. congruence.
  - rewrite !Z.eqb_eq. congruence.
  - rewrite !Z.eqb_eq. congruence.
  - rewrite !andb_true_iff. intros [Hi H1] [Hj H2]. split.
    + apply Bool.eqb_prop in Hi, Hj. subst. apply Bool.eqb_reflx.
    + clear Hi Hj. revert l0 l1 H1 H2. induction IH as [|x xs Hx _ IHl]; intros [|y ys] [|z zs]; try discriminate; auto.
      rewrite !andb_true_iff. intros [A1 A2] [B1 B2]. split; eauto.
Qed.

Lemma row_eq_refl r : row_eq r r = true.
Proof. apply py_eq_refl. Qed.
Lemma row_eq_sym a b : row_eq a b = row_eq b a.
Proof. apply py_eq_sym. Qed.
Lemma row_eq_trans a b d : row_eq a b = true -> row_eq b d = true -> row_eq a d = true.
Proof. apply py_eq_trans. Qed.

(* equal rows are interchangeable as arguments of row_eq *)
Lemma row_eq_cong a b d : row_eq a b = true -> row_eq a d = row_eq b d.
Proof.
  intros H. destruct (row_eq a d) eqn:E1, (row_eq b d) eqn:E2; auto.
  - rewrite row_eq_sym in H. rewrite (row_eq_trans b a d H E1) in E2. discriminate.
  - rewrite (row_eq_trans a b d H E2) in E1. discriminate.
Qed.

(* ---- counters ---------------------------------------------------------------------------------- *)
Lemma cnt_get_cong c a b : row_eq a b = true -> cnt_get c a = cnt_get c b.
Proof.
  intros H. induction c as [|[k n] t IH]; simpl; auto.
  rewrite (row_eq_sym k a), (row_eq_sym k b), (row_eq_cong a b k H). destruct (row_eq b k); auto.
Qed.

Lemma cnt_get_add c r d r' :
  cnt_get (cnt_add c r d) r' = cnt_get c r' + (if row_eq r r' then d else 0).
Proof.
  induction c as [|[k n] t IH]; simpl.
  - destruct (row_eq r r'); lia.
  - destruct (row_eq k r) eqn:Ekr; simpl.
    + rewrite (row_eq_cong k r r' Ekr). destruct (row_eq r r'); lia.
    + destruct (row_eq k r') eqn:Ekr'.
      * assert (row_eq r r' = false).
        { destruct (row_eq r r') eqn:E; auto. rewrite row_eq_sym in E.
          rewrite (row_eq_trans k r' r Ekr' E) in Ekr. discriminate. }
        rewrite H. lia.
      * apply IH.
Qed.

Definition zcnt (r : row) (l : list row) : Z := Z.of_nat (cnt r l).

Lemma zcnt_cons r x l : zcnt r (x :: l) = (if row_eq r x then 1 else 0) + zcnt r l.
Proof. unfold zcnt, cnt. simpl. destruct (row_eq r x); simpl length; lia. Qed.

Lemma cnt_of_get_gen rows : forall c r, cnt_get (fold_left (fun c r => cnt_add c r 1) rows c) r = cnt_get c r + zcnt r rows.
Proof.
  induction rows as [|x t IH]; intros c r; simpl.
  - unfold zcnt, cnt. simpl. lia.
  - rewrite IH, cnt_get_add, zcnt_cons. rewrite (row_eq_sym x r). lia.
Qed.

Lemma cnt_of_get rows r : cnt_get (cnt_of rows) r = zcnt r rows.
Proof. unfold cnt_of. rewrite cnt_of_get_gen. simpl. lia. Qed.

Definition nonneg (c : counter) := forall r, 0 <= cnt_get c r.

Lemma nonneg_dec c t : nonneg c -> 0 < cnt_get c t -> nonneg (cnt_add c t (-1)).
Proof.
  intros H Ht r. rewrite cnt_get_add. destruct (row_eq t r) eqn:E.
  - rewrite <- (cnt_get_cong c t r E). lia.
  - specialize (H r). lia.
Qed.

(* hashcomplement, non-strict: multiset difference *)
Theorem hashcomp_counts ra : forall c r, nonneg c ->
  zcnt r (hashcomp_loop false c ra) = Z.max 0 (zcnt r ra - cnt_get c r).
Proof.
  induction ra as [|t rest IH]; intros c r Hc; cbn [hashcomp_loop].
  - unfold zcnt, cnt. simpl. specialize (Hc r). lia.
  - destruct (0 <? cnt_get c t) eqn:E.
    + apply Z.ltb_lt in E. rewrite IH by (apply nonneg_dec; auto).
      rewrite cnt_get_add, zcnt_cons. rewrite (row_eq_sym r t).
      destruct (row_eq t r) eqn:Etr.
      * rewrite <- (cnt_get_cong c t r Etr). lia.
      * lia.
    + apply Z.ltb_ge in E. rewrite !zcnt_cons. rewrite IH by auto.
      destruct (row_eq r t) eqn:Ert.
      * rewrite (cnt_get_cong c r t Ert). pose proof (Hc t).
        assert (zcnt r rest >= 0) by (unfold zcnt; lia). lia.
      * pose proof (Hc r). lia.
Qed.

(* hashcomplement, strict: rows of a that do not occur in b at all *)
Theorem hashcomp_strict_counts ra : forall c r, nonneg c ->
  zcnt r (hashcomp_loop true c ra) = if 0 <? cnt_get c r then 0 else zcnt r ra.
Proof.
  induction ra as [|t rest IH]; intros c r Hc; cbn [hashcomp_loop].
  - unfold zcnt, cnt. simpl. destruct (0 <? cnt_get c r); reflexivity.
  - destruct (0 <? cnt_get c t) eqn:E.
    + rewrite IH by auto. rewrite zcnt_cons. destruct (row_eq r t) eqn:Ert.
      * rewrite (cnt_get_cong c r t Ert), E. reflexivity.
      * destruct (0 <? cnt_get c r); lia.
    + rewrite !zcnt_cons. rewrite IH by auto. destruct (row_eq r t) eqn:Ert.
      * rewrite (cnt_get_cong c r t Ert), E. reflexivity.
      * destruct (0 <? cnt_get c r); lia.
Qed.

(* hashintersection: multiset intersection *)
Theorem hashinter_counts ra : forall c r, nonneg c ->
  zcnt r (hashinter_loop c ra) = Z.min (zcnt r ra) (cnt_get c r).
Proof.
  induction ra as [|t rest IH]; intros c r Hc; cbn [hashinter_loop].
  - unfold zcnt, cnt. simpl. specialize (Hc r). lia.
  - destruct (0 <? cnt_get c t) eqn:E.
    + apply Z.ltb_lt in E. rewrite !zcnt_cons. rewrite IH by (apply nonneg_dec; auto).
      rewrite cnt_get_add. rewrite (row_eq_sym r t). destruct (row_eq t r) eqn:Etr.
      * rewrite <- (cnt_get_cong c t r Etr). lia.
      * lia.
    + apply Z.ltb_ge in E. rewrite IH by auto. rewrite zcnt_cons. destruct (row_eq r t) eqn:Ert.
      * rewrite (cnt_get_cong c r t Ert). pose proof (Hc t).
        assert (zcnt r rest >= 0) by (unfold zcnt; lia). lia.
      * lia.
Qed.

Lemma cnt_of_nonneg rows : nonneg (cnt_of rows).
Proof. intros r. rewrite cnt_of_get. unfold zcnt. lia. Qed.

(* the statements in terms of the two tables *)
Theorem hashcomplement_is_multiset_difference ra rb r :
  zcnt r (hashcomp_loop false (cnt_of rb) ra) = Z.max 0 (zcnt r ra - zcnt r rb).
Proof. rewrite hashcomp_counts by apply cnt_of_nonneg. rewrite cnt_of_get. reflexivity. Qed.

Theorem hashcomplement_strict_spec ra rb r :
  zcnt r (hashcomp_loop true (cnt_of rb) ra) = if 0 <? zcnt r rb then 0 else zcnt r ra.
Proof. rewrite hashcomp_strict_counts by apply cnt_of_nonneg. rewrite cnt_of_get. reflexivity. Qed.

Theorem hashintersection_is_multiset_intersection ra rb r :
  zcnt r (hashinter_loop (cnt_of rb) ra) = Z.min (zcnt r ra) (zcnt r rb).
Proof. rewrite hashinter_counts by apply cnt_of_nonneg. rewrite cnt_of_get. reflexivity. Qed.

(* complement and intersection reassemble a *)
Theorem hash_reassemble ra rb r :
  zcnt r (hashcomp_loop false (cnt_of rb) ra) + zcnt r (hashinter_loop (cnt_of rb) ra) = zcnt r ra.
Proof.
  rewrite hashcomplement_is_multiset_difference, hashintersection_is_multiset_intersection.
  assert (zcnt r rb >= 0) by (unfold zcnt; lia). lia.
Qed.
