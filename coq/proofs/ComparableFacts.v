(* ComparableFacts.v — the REGENERATED ladder (gen/ComparableGen.v) is proved equal to the reference
   ordering spec/Order.v; every order-theoretic fact then transfers.  Re-checked on every run. *)
From Verif Require Import PyVal Order CmpFacts ComparableGen.
Open Scope Z_scope.

Lemma ltb_is_lt x y : (x <? y) = is_lt (x ?= y).
Proof. unfold Z.ltb. destruct (x ?= y); reflexivity. Qed.
Lemma eqb_is_eq x y : (x =? y) = is_eq (x ?= y).
Proof. unfold Z.eqb, Z.compare. destruct x, y; simpl; auto; try (destruct (p ?= p0)%positive; reflexivity);
  try (destruct (CompOpp (p ?= p0)%positive) eqn:E; reflexivity).
  - unfold Pos.eqb. generalize (Pos.compare_eq_iff p p0). destruct (p ?= p0)%positive eqn:E; intros H.
    + rewrite (proj1 H eq_refl). apply Pos.eqb_refl.
    + apply Pos.eqb_neq. intros ->. rewrite Pos.compare_refl in E. discriminate.
    + apply Pos.eqb_neq. intros ->. rewrite Pos.compare_refl in E. discriminate.
  - rewrite <- Pos.compare_antisym. generalize (Pos.compare_eq_iff p0 p). destruct (p0 ?= p)%positive eqn:E; intros H.
    + rewrite (proj1 H eq_refl). apply Pos.eqb_refl.
    + apply Pos.eqb_neq. intros ->. rewrite Pos.compare_refl in E. discriminate.
    + apply Pos.eqb_neq. intros ->. rewrite Pos.compare_refl in E. discriminate.
Qed.

Lemma ceq_seq i1 l1 i2 l2 :
  ceq (VSeq i1 l1) (VSeq i2 l2) =
  (fix seq_eq (l1 l2 : list val) : bool :=
     match l1, l2 with
     | [], [] => true
     | x :: xs, y :: ys => ceq x y && seq_eq xs ys
     | _, _ => false
     end) l1 l2.
Proof. reflexivity. Qed.

Theorem ceq_is_veq a b : ceq a b = veq a b.
Proof.
  revert b. induction a as [ | k x | x | x | x | x | x | i l IH ] using val_ind'; intros b;
    destruct b; try reflexivity; unfold veq; simpl; try apply eqb_is_eq.
  revert l0. induction IH as [|x xs Hx _ IHl]; intros [|y ys]; try reflexivity.
  rewrite Hx. unfold veq. destruct (vcmp x y); simpl; auto.
Qed.

Theorem clt_is_vlt a b : clt a b = vlt a b.
Proof.
  revert b. induction a as [ | k x | x | x | x | x | x | i l IH ] using val_ind'; intros b;
    destruct b; try reflexivity; unfold vlt;
    try (destruct k; reflexivity); try (destruct k; destruct k0; reflexivity);
    try (simpl; apply ltb_is_lt).
  simpl.
  revert l0. induction IH as [|x xs Hx _ IHl]; intros [|y ys]; try reflexivity.
  rewrite ceq_is_veq, Hx. unfold veq, vlt. destruct (vcmp x y); simpl; auto.
Qed.

(* ---- order-theoretic consequences for the generated operators -------------------------- *)
Lemma clt_irrefl a : clt a a = false.
Proof. rewrite clt_is_vlt. unfold vlt. rewrite vcmp_refl. reflexivity. Qed.

Lemma clt_asym a b : clt a b = true -> clt b a = false.
Proof. rewrite !clt_is_vlt. unfold vlt. rewrite (vcmp_antisym a b). destruct (vcmp a b); simpl; congruence. Qed.

Lemma clt_trans a b c : clt a b = true -> clt b c = true -> clt a c = true.
Proof.
  rewrite !clt_is_vlt. unfold vlt. intros H1 H2.
  destruct (vcmp a b) eqn:E1; try discriminate. destruct (vcmp b c) eqn:E2; try discriminate.
  rewrite (vcmp_lt_trans a b c E1 E2). reflexivity.
Qed.

Lemma ceq_refl a : ceq a a = true.
Proof. rewrite ceq_is_veq. unfold veq. rewrite vcmp_refl. reflexivity. Qed.

Lemma ceq_sym a b : ceq a b = ceq b a.
Proof. rewrite !ceq_is_veq. unfold veq. rewrite (vcmp_antisym a b). destruct (vcmp a b); reflexivity. Qed.

Lemma ceq_trans a b c : ceq a b = true -> ceq b c = true -> ceq a c = true.
Proof.
  rewrite !ceq_is_veq. unfold veq. intros H1 H2.
  destruct (vcmp a b) eqn:E1; try discriminate. destruct (vcmp b c) eqn:E2; try discriminate.
  rewrite (vcmp_eq_trans a b c E1 E2). reflexivity.
Qed.

Lemma ceq_congr a a' b : ceq a a' = true -> clt a b = clt a' b /\ clt b a = clt b a' /\ ceq a b = ceq a' b.
Proof.
  rewrite !ceq_is_veq, !clt_is_vlt. unfold veq, vlt. intros H.
  destruct (vcmp a a') eqn:E; try discriminate.
  rewrite (vcmp_eq_l a a' b E), (vcmp_eq_r b a a' E). auto.
Qed.

Lemma trichotomy a b :
  (clt a b = true /\ ceq a b = false /\ clt b a = false) \/
  (clt a b = false /\ ceq a b = true /\ clt b a = false) \/
  (clt a b = false /\ ceq a b = false /\ clt b a = true).
Proof.
  rewrite !clt_is_vlt, ceq_is_veq. unfold vlt, veq. rewrite (vcmp_antisym a b).
  destruct (vcmp a b); simpl; auto.
Qed.

Lemma derived_ops a b : cle a b = negb (clt b a) /\ cgt a b = clt b a /\ cge a b = negb (clt a b).
Proof.
  unfold cle, cgt, cge. rewrite !clt_is_vlt, ceq_is_veq. unfold vlt, veq. rewrite (vcmp_antisym a b).
  destruct (vcmp a b); simpl; auto.
Qed.

Lemma cle_is_vle a b : cle a b = vle a b.
Proof. unfold cle, vle. rewrite clt_is_vlt, ceq_is_veq. unfold vlt, veq. destruct (vcmp a b); reflexivity. Qed.

Lemma none_lowest a : a <> VNone -> clt VNone a = true /\ clt a VNone = false.
Proof. intros H. destruct a; try congruence; split; reflexivity. Qed.

Lemma numbers_below_rest a b : is_numeric a = true -> is_numeric b = false -> b <> VNone ->
                               clt a b = true /\ clt b a = false.
Proof.
  intros Ha Hb Hn. rewrite !clt_is_vlt. unfold vlt.
  destruct a; try discriminate; destruct b; try discriminate; try congruence; split; reflexivity.
Qed.

Lemma bytes_below_text x y : clt (VBytes x) (VStr y) = true /\ clt (VStr y) (VBytes x) = false.
Proof. split; reflexivity. Qed.

(* values of one type follow their native order *)
Lemma same_type_native a b r : native_scalar_lt a b = Some r -> clt a b = r.
Proof.
  rewrite clt_is_vlt. unfold vlt.
  destruct a, b; simpl; try discriminate; intros H; inversion H; subst; auto using ltb_is_lt.
  all: symmetry; apply ltb_is_lt.
Qed.

(* values of unrelated types are ordered by type name *)
Lemma unrelated_by_typename a b :
  a <> VNone -> b <> VNone -> is_numeric a = false -> is_numeric b = false ->
  vrank a <> vrank b -> clt a b = zl_lt (typestr a) (typestr b).
Proof.
  intros Ha Hb Na Nb Hr. rewrite clt_is_vlt. unfold vlt.
  destruct a; try congruence; try discriminate; destruct b; try congruence; try discriminate;
    try reflexivity; simpl in Hr; congruence.
Qed.

(* lists / tuples compare element-wise under the same rules *)
Lemma seq_elementwise i1 x xs i2 y ys :
  clt (VSeq i1 (x :: xs)) (VSeq i2 (y :: ys)) = (if ceq x y then clt (VSeq i1 xs) (VSeq i2 ys) else clt x y)
  /\ ceq (VSeq i1 (x :: xs)) (VSeq i2 (y :: ys)) = (ceq x y && ceq (VSeq i1 xs) (VSeq i2 ys)).
Proof. split; reflexivity. Qed.

Lemma seq_prefix i1 i2 y ys :
  clt (VSeq i1 []) (VSeq i2 (y :: ys)) = true /\ clt (VSeq i1 (y :: ys)) (VSeq i2 []) = false
  /\ clt (VSeq i1 []) (VSeq i2 []) = false /\ ceq (VSeq i1 []) (VSeq i2 []) = true.
Proof. repeat split; reflexivity. Qed.

(* the equivalence agrees with Python's == (lists and tuples being stored as tuples by __init__) *)
Fixpoint as_tuples (v : val) : val :=
  match v with
  | VSeq _ l => VSeq false (map as_tuples l)
  | _ => v
  end.

Lemma ceq_agrees_py_eq a b : ceq a b = py_eq (as_tuples a) (as_tuples b).
Proof.
  revert b. induction a as [ | k x | x | x | x | x | x | i l IH ] using val_ind'; intros b;
    destruct b; try reflexivity.
  simpl. revert l0. induction IH as [|x xs Hx _ IHl]; intros [|y ys]; try reflexivity.
  simpl. rewrite <- Hx. simpl in IHl. rewrite <- IHl. reflexivity.
Qed.

Lemma cle_trans a b c : cle a b = true -> cle b c = true -> cle a c = true.
Proof. rewrite !cle_is_vle. apply vle_trans. Qed.

Lemma cle_total a b : cle a b = true \/ cle b a = true.
Proof. rewrite !cle_is_vle. apply vle_total. Qed.

Lemma missing_default_is_none : missing_key_default = VNone.
Proof. reflexivity. Qed.
