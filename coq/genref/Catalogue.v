(* GENERATED on every run by translator/facts.py from /repo/petl/**/*.py. *)
From Coq Require Import String List Bool.
Import ListNotations.
Open Scope string_scope.
Record view_fact := { vf_module : string; vf_class : string; vf_writes : list string; vf_effects : list string }.
Definition view_count : nat := 121.
(* only the views whose __iter__ (transitively) writes shared state; all others are stateless *)
Definition stateful_views : list view_fact := [
  {| vf_module := "petl.io.avro"; vf_class := "AvroView"; vf_writes := ["avro_schema"]; vf_effects := [] |};
  {| vf_module := "petl.io.json"; vf_class := "DictsGeneratorView"; vf_writes := ["_cached"; "_filecache"; "_header"; "dicts"]; vf_effects := [] |};
  {| vf_module := "petl.transform.hashjoins"; vf_class := "HashJoinView"; vf_writes := ["rlookup"]; vf_effects := [] |};
  {| vf_module := "petl.transform.hashjoins"; vf_class := "HashLeftJoinView"; vf_writes := ["rlookup"]; vf_effects := [] |};
  {| vf_module := "petl.transform.hashjoins"; vf_class := "HashRightJoinView"; vf_writes := ["llookup"]; vf_effects := [] |};
  {| vf_module := "petl.transform.sorts"; vf_class := "SortView"; vf_writes := ["_filecache"; "_getkey"; "_hdrcache"; "_memcache"]; vf_effects := [] |};
  {| vf_module := "petl.util.materialise"; vf_class := "CacheView"; vf_writes := ["cache"; "cachecomplete"]; vf_effects := [] |};
  {| vf_module := "petl.util.random"; vf_class := "DummyTable"; vf_writes := []; vf_effects := ["pyrandom.seed"; "pyrandom.setstate"] |};
  {| vf_module := "petl.util.timing"; vf_class := "ClockView"; vf_writes := ["time"]; vf_effects := [] |};
  {| vf_module := "petl.util.timing"; vf_class := "ProgressView"; vf_writes := ["file_object"]; vf_effects := [] |}
].
