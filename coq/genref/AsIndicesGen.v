(* GENERATED on every run by translator/asindices.py from /repo/petl/util/base.py (asindices). *)
From Verif Require Import PyVal Rows.
Open Scope Z_scope.

Inductive ai_test := TInt | TName.
Inductive ai_body := BIndex | BNameConsume | BNameKeep | BRaise.
Definition ai_chain : list (ai_test * ai_body) := [(TInt, BIndex); (TName, BNameConsume)].
Definition ai_else : ai_body := BRaise.

Definition ai_test_holds (t : ai_test) (hdrlen : Z) (flds : list val) (s : val) : bool :=
  match t with
  | TInt => is_int s && (int_of s <? hdrlen)
  | TName => py_in s flds
  end.

Definition ai_run_body (b : ai_body) (flds : list val) (indices : list Z) (s : val)
  : res (list val * list Z) :=
  match b with
  | BIndex => Ok (flds, indices ++ [int_of s])
  | BNameConsume => match py_index s flds with
                    | Some idx => Ok (set_nth (Z.to_nat idx) VNone flds, indices ++ [idx])
                    | None => Err ValueErr
                    end
  | BNameKeep => match py_index s flds with
                 | Some idx => Ok (flds, indices ++ [idx])
                 | None => Err ValueErr
                 end
  | BRaise => Err FieldSelectionErr
  end.

Fixpoint ai_dispatch (chain : list (ai_test * ai_body)) (hdrlen : Z) (flds : list val) (indices : list Z)
  (s : val) : res (list val * list Z) :=
  match chain with
  | [] => ai_run_body ai_else flds indices s
  | (t, b) :: rest => if ai_test_holds t hdrlen flds s then ai_run_body b flds indices s
                      else ai_dispatch rest hdrlen flds indices s
  end.

Fixpoint ai_loop (hdrlen : Z) (flds : list val) (indices : list Z) (spec : list val) : res (list Z) :=
  match spec with
  | [] => Ok indices
  | s :: rest => match ai_dispatch ai_chain hdrlen flds indices s with
                 | Ok (flds', indices') => ai_loop hdrlen flds' indices' rest
                 | Err e => Err e
                 end
  end.

(* asindices(hdr, spec): a non-list/tuple spec is wrapped into a 1-tuple *)
Definition asindices (hdr : row) (spec : val) : res (list Z) :=
  let specl := match spec with VSeq _ l => l | _ => [spec] end in
  ai_loop (zlen hdr) (map hdr_text hdr) [] specl.
