(* GENERATED on every run by translator/facts.py from /repo/petl/transform/*.py. *)
From Coq Require Import String List Bool.
Import ListNotations.
Open Scope string_scope.
Record fwd_call := { fw_site : string; fw_callee : string; fw_line : nat;
                     fw_buffersize : bool; fw_tempdir : bool; fw_cache : bool }.
Definition fwd_calls : list fwd_call := [
  {| fw_site := "dedup.duplicates"; fw_callee := "DuplicatesView"; fw_line := 65; fw_buffersize := true; fw_tempdir := true; fw_cache := true |};
  {| fw_site := "dedup.DuplicatesView.__init__"; fw_callee := "sort"; fw_line := 79; fw_buffersize := true; fw_tempdir := true; fw_cache := true |};
  {| fw_site := "dedup.unique"; fw_callee := "UniqueView"; fw_line := 170; fw_buffersize := true; fw_tempdir := true; fw_cache := true |};
  {| fw_site := "dedup.UniqueView.__init__"; fw_callee := "sort"; fw_line := 184; fw_buffersize := true; fw_tempdir := true; fw_cache := true |};
  {| fw_site := "dedup.conflicts"; fw_callee := "ConflictsView"; fw_line := 297; fw_buffersize := true; fw_tempdir := true; fw_cache := true |};
  {| fw_site := "dedup.ConflictsView.__init__"; fw_callee := "sort"; fw_line := 312; fw_buffersize := true; fw_tempdir := true; fw_cache := true |};
  {| fw_site := "dedup.distinct"; fw_callee := "DistinctView"; fw_line := 401; fw_buffersize := true; fw_tempdir := true; fw_cache := true |};
  {| fw_site := "dedup.DistinctView.__init__"; fw_callee := "sort"; fw_line := 414; fw_buffersize := true; fw_tempdir := true; fw_cache := true |};
  {| fw_site := "joins.join"; fw_callee := "JoinView"; fw_line := 143; fw_buffersize := true; fw_tempdir := true; fw_cache := true |};
  {| fw_site := "joins.JoinView.__init__"; fw_callee := "sort"; fw_line := 162; fw_buffersize := true; fw_tempdir := true; fw_cache := true |};
  {| fw_site := "joins.JoinView.__init__"; fw_callee := "sort"; fw_line := 164; fw_buffersize := true; fw_tempdir := true; fw_cache := true |};
  {| fw_site := "joins.leftjoin"; fw_callee := "JoinView"; fw_line := 223; fw_buffersize := true; fw_tempdir := true; fw_cache := true |};
  {| fw_site := "joins.rightjoin"; fw_callee := "JoinView"; fw_line := 276; fw_buffersize := true; fw_tempdir := true; fw_cache := true |};
  {| fw_site := "joins.outerjoin"; fw_callee := "JoinView"; fw_line := 332; fw_buffersize := true; fw_tempdir := true; fw_cache := true |};
  {| fw_site := "joins.antijoin"; fw_callee := "AntiJoinView"; fw_line := 588; fw_buffersize := true; fw_tempdir := true; fw_cache := true |};
  {| fw_site := "joins.AntiJoinView.__init__"; fw_callee := "sort"; fw_line := 604; fw_buffersize := true; fw_tempdir := true; fw_cache := true |};
  {| fw_site := "joins.AntiJoinView.__init__"; fw_callee := "sort"; fw_line := 606; fw_buffersize := true; fw_tempdir := true; fw_cache := true |};
  {| fw_site := "joins.lookupjoin"; fw_callee := "LookupJoinView"; fw_line := 720; fw_buffersize := true; fw_tempdir := true; fw_cache := true |};
  {| fw_site := "joins.LookupJoinView.__init__"; fw_callee := "sort"; fw_line := 737; fw_buffersize := true; fw_tempdir := true; fw_cache := true |};
  {| fw_site := "joins.LookupJoinView.__init__"; fw_callee := "sort"; fw_line := 739; fw_buffersize := true; fw_tempdir := true; fw_cache := true |};
  {| fw_site := "joins.unjoin"; fw_callee := "distinct"; fw_line := 935; fw_buffersize := true; fw_tempdir := true; fw_cache := true |};
  {| fw_site := "joins.unjoin"; fw_callee := "distinct"; fw_line := 939; fw_buffersize := true; fw_tempdir := true; fw_cache := true |};
  {| fw_site := "joins.unjoin"; fw_callee := "sort"; fw_line := 923; fw_buffersize := true; fw_tempdir := true; fw_cache := true |};
  {| fw_site := "maps.rowgroupmap"; fw_callee := "RowGroupMapView"; fw_line := 345; fw_buffersize := true; fw_tempdir := true; fw_cache := true |};
  {| fw_site := "maps.RowGroupMapView.__init__"; fw_callee := "sort"; fw_line := 360; fw_buffersize := true; fw_tempdir := true; fw_cache := true |};
  {| fw_site := "reductions.rowreduce"; fw_callee := "RowReduceView"; fw_line := 59; fw_buffersize := true; fw_tempdir := true; fw_cache := true |};
  {| fw_site := "reductions.RowReduceView.__init__"; fw_callee := "sort"; fw_line := 74; fw_buffersize := true; fw_tempdir := true; fw_cache := true |};
  {| fw_site := "reductions.aggregate"; fw_callee := "SimpleAggregateView"; fw_line := 220; fw_buffersize := true; fw_tempdir := true; fw_cache := true |};
  {| fw_site := "reductions.aggregate"; fw_callee := "MultiAggregateView"; fw_line := 226; fw_buffersize := true; fw_tempdir := true; fw_cache := true |};
  {| fw_site := "reductions.SimpleAggregateView.__init__"; fw_callee := "sort"; fw_line := 245; fw_buffersize := true; fw_tempdir := true; fw_cache := true |};
  {| fw_site := "reductions.MultiAggregateView.__init__"; fw_callee := "sort"; fw_line := 300; fw_buffersize := true; fw_tempdir := true; fw_cache := true |};
  {| fw_site := "reductions.groupselectfirst"; fw_callee := "rowreduce"; fw_line := 442; fw_buffersize := true; fw_tempdir := true; fw_cache := true |};
  {| fw_site := "reductions.groupselectlast"; fw_callee := "rowreduce"; fw_line := 485; fw_buffersize := true; fw_tempdir := true; fw_cache := true |};
  {| fw_site := "reductions.groupselectmin"; fw_callee := "groupselectfirst"; fw_line := 500; fw_buffersize := true; fw_tempdir := true; fw_cache := true |};
  {| fw_site := "reductions.groupselectmin"; fw_callee := "sort"; fw_line := 500; fw_buffersize := true; fw_tempdir := true; fw_cache := true |};
  {| fw_site := "reductions.groupselectmax"; fw_callee := "groupselectfirst"; fw_line := 518; fw_buffersize := true; fw_tempdir := true; fw_cache := true |};
  {| fw_site := "reductions.groupselectmax"; fw_callee := "sort"; fw_line := 518; fw_buffersize := true; fw_tempdir := true; fw_cache := true |};
  {| fw_site := "reductions.mergeduplicates"; fw_callee := "MergeDuplicatesView"; fw_line := 569; fw_buffersize := true; fw_tempdir := true; fw_cache := true |};
  {| fw_site := "reductions.MergeDuplicatesView.__init__"; fw_callee := "sort"; fw_line := 584; fw_buffersize := true; fw_tempdir := true; fw_cache := true |};
  {| fw_site := "reductions.fold"; fw_callee := "FoldView"; fw_line := 711; fw_buffersize := true; fw_tempdir := true; fw_cache := true |};
  {| fw_site := "reductions.FoldView.__init__"; fw_callee := "sort"; fw_line := 725; fw_buffersize := true; fw_tempdir := true; fw_cache := true |};
  {| fw_site := "reshape.pivot"; fw_callee := "PivotView"; fw_line := 509; fw_buffersize := true; fw_tempdir := true; fw_cache := true |};
  {| fw_site := "reshape.PivotView.__init__"; fw_callee := "sort"; fw_line := 524; fw_buffersize := true; fw_tempdir := true; fw_cache := true |};
  {| fw_site := "setops.complement"; fw_callee := "ComplementView"; fw_line := 98; fw_buffersize := true; fw_tempdir := true; fw_cache := true |};
  {| fw_site := "setops.ComplementView.__init__"; fw_callee := "sort"; fw_line := 113; fw_buffersize := true; fw_tempdir := true; fw_cache := true |};
  {| fw_site := "setops.ComplementView.__init__"; fw_callee := "sort"; fw_line := 115; fw_buffersize := true; fw_tempdir := true; fw_cache := true |};
  {| fw_site := "setops.recordcomplement"; fw_callee := "complement"; fw_line := 220; fw_buffersize := true; fw_tempdir := true; fw_cache := true |};
  {| fw_site := "setops.diff"; fw_callee := "complement"; fw_line := 283; fw_buffersize := true; fw_tempdir := true; fw_cache := true |};
  {| fw_site := "setops.diff"; fw_callee := "complement"; fw_line := 285; fw_buffersize := true; fw_tempdir := true; fw_cache := true |};
  {| fw_site := "setops.diff"; fw_callee := "sort"; fw_line := 281; fw_buffersize := true; fw_tempdir := true; fw_cache := true |};
  {| fw_site := "setops.diff"; fw_callee := "sort"; fw_line := 282; fw_buffersize := true; fw_tempdir := true; fw_cache := true |};
  {| fw_site := "setops.recorddiff"; fw_callee := "recordcomplement"; fw_line := 340; fw_buffersize := true; fw_tempdir := true; fw_cache := true |};
  {| fw_site := "setops.recorddiff"; fw_callee := "recordcomplement"; fw_line := 342; fw_buffersize := true; fw_tempdir := true; fw_cache := true |};
  {| fw_site := "setops.intersection"; fw_callee := "IntersectionView"; fw_line := 384; fw_buffersize := true; fw_tempdir := true; fw_cache := true |};
  {| fw_site := "setops.IntersectionView.__init__"; fw_callee := "sort"; fw_line := 399; fw_buffersize := true; fw_tempdir := true; fw_cache := true |};
  {| fw_site := "setops.IntersectionView.__init__"; fw_callee := "sort"; fw_line := 401; fw_buffersize := true; fw_tempdir := true; fw_cache := true |};
  {| fw_site := "sorts.sort"; fw_callee := "SortView"; fw_line := 111; fw_buffersize := true; fw_tempdir := true; fw_cache := true |};
  {| fw_site := "sorts.MergeSortView.__init__"; fw_callee := "sort"; fw_line := 473; fw_buffersize := true; fw_tempdir := true; fw_cache := true |}
].
Definition forwards_all (c : fwd_call) : bool := fw_buffersize c && fw_tempdir c && fw_cache c.
