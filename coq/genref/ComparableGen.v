(* GENERATED on every run by translator/comparable.py from /repo/petl/comparison.py and petl/compat.py. *)
(* Do not edit; not committed. *)
From Verif Require Import PyVal.
Open Scope bool_scope.

(* compat.numeric_types (Python 3 branch) *)
Definition is_numeric_g (v : val) : bool :=
  match v with
  | VNum KBool _ => true
  | VNum KInt _ => true
  | VNum KFloat _ => true
  | VNum KDecimal _ => true
  | _ => false
  end.

(* _typestr *)
Definition typestr (x : val) : list Z :=
  if (is_binary x) then zs "str" else
  if (is_text x) then zs "unicode" else
  py_typename x.

(* Comparable.__eq__ : self.obj == other.obj, where __init__ stores lists and tuples as tuples of Comparable *)
Fixpoint ceq (a b : val) {struct a} : bool :=
  match a, b with
  | VSeq _ l1, VSeq _ l2 =>
      (fix seq_eq (l1 l2 : list val) : bool :=
         match l1, l2 with
         | [], [] => true
         | x :: xs, y :: ys => ceq x y && seq_eq xs ys
         | _, _ => false
         end) l1 l2
  | _, _ => native_scalar_eq a b
  end.

(* Comparable.__lt__ : the decision ladder as written; `native` is CPython's obj < other (None = TypeError), *)
(* whose tuple case compares element-wise through Comparable.__eq__ / __lt__ of the wrapped elements. *)
Fixpoint clt (obj other : val) {struct obj} : bool :=
  let native : option bool :=
    match obj, other with
    | VSeq _ l1, VSeq _ l2 =>
        Some ((fix seq_lt (l1 l2 : list val) : bool :=
                 match l1, l2 with
                 | [], [] => false
                 | [], _ :: _ => true
                 | _ :: _, [] => false
                 | x :: xs, y :: ys => if ceq x y then seq_lt xs ys else clt x y
                 end) l1 l2)
    | _, _ => native_scalar_lt obj other
    end in
  if (is_none other) then false else
  if (is_none obj) then true else
  if ((is_numeric_g obj) && (negb (is_numeric_g other))) then true else
  if ((negb (is_numeric_g obj)) && (is_numeric_g other)) then false else
  if ((is_text obj) && (is_binary other)) then false else
  if ((is_binary obj) && (is_text other)) then true else
  match native with
  | Some r => r
  | None => zl_lt (typestr obj) (typestr other)
  end.

(* derived operators, as written *)
Definition cle (a b : val) : bool := ((clt a b) || (ceq a b)).
Definition cgt (a b : val) : bool := (negb ((clt a b) || (ceq a b))).
Definition cge (a b : val) : bool := (negb (clt a b)).

(* comparable_itemgetter: default for a missing cell *)
Definition missing_key_default : val := VNone.
Definition ladder_rungs : nat := 6.
