(* Extraction of the executable models: ExtrOcamlBasic only; Z, positive, Q, nat stay extracted datatypes;
   no Extract Constant directives. *)
From Verif Require Import PyVal Enc Dispatch.
From Coq Require Extraction.
From Coq Require Import ExtrOcamlBasic.
Extraction Language OCaml.
Extraction "model.ml" Dispatch.run Z.add Z.mul Z.opp Z.of_nat Z.to_pos Z.to_nat.
