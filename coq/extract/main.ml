(* modelrun — line-oriented runner around the extracted dispatcher.
   input : one case per line:  <id> <op> <value-sexp>
   output: one line per case:  <id> <value-sexp>
   Numerals are read into the extracted Z by digit arithmetic (never through OCaml int). *)
open Model

let z_of_int_small (n : int) : z =  (* 0..10 only *)
  let rec go k acc = if k = 0 then acc else go (k - 1) (Z.add acc (Zpos XH)) in
  go n Z0
let z10 = z_of_int_small 10

let z_of_string s : z =
  let n = Stdlib.String.length s in
  let neg = n > 0 && s.[0] = '-' in
  let start = if neg then 1 else 0 in
  let acc = ref Z0 in
  for i = start to n - 1 do
    let d = Stdlib.Char.code s.[i] - 48 in
    if d < 0 || d > 9 then failwith ("bad numeral " ^ s);
    acc := Z.add (Z.mul !acc z10) (z_of_int_small d)
  done;
  if neg then Z.opp !acc else !acc

(* printing Z in decimal: repeated division by 10 using extracted ops would need div; instead convert
   through positive bits into an OCaml arbitrary-length decimal string by doubling. *)
let dec_double (s : Stdlib.Bytes.t ref) (carry_in : int) =
  let b = !s in
  let n = Stdlib.Bytes.length b in
  let carry = ref carry_in in
  for i = n - 1 downto 0 do
    let d = (Stdlib.Char.code (Stdlib.Bytes.get b i) - 48) * 2 + !carry in
    Stdlib.Bytes.set b i (Stdlib.Char.chr (48 + d mod 10));
    carry := d / 10
  done;
  if !carry > 0 then begin
    let nb = Stdlib.Bytes.make (n + 1) '0' in
    Stdlib.Bytes.blit b 0 nb 1 n;
    Stdlib.Bytes.set nb 0 (Stdlib.Char.chr (48 + !carry));
    s := nb
  end

let string_of_pos (p : positive) =
  (* collect bits, most significant first *)
  let rec bits p acc = match p with
    | XH -> 1 :: acc
    | XO q -> bits q (0 :: acc)
    | XI q -> bits q (1 :: acc) in
  let bl = bits p [] in
  let s = ref (Stdlib.Bytes.of_string "0") in
  Stdlib.List.iter (fun b -> dec_double s b) bl;
  Stdlib.Bytes.to_string !s

let string_of_z (z : z) = match z with
  | Z0 -> "0"
  | Zpos p -> string_of_pos p
  | Zneg p -> "-" ^ string_of_pos p

(* ---- s-expressions ---- *)
type sx = A of Stdlib.String.t | L of sx list

let parse_sx s (pos : int ref) : sx =
  let n = Stdlib.String.length s in
  let rec skip () = if !pos < n && s.[!pos] = ' ' then (incr pos; skip ()) in
  let rec one () =
    skip ();
    if !pos >= n then failwith "unexpected end";
    if s.[!pos] = '(' then begin
      incr pos;
      let items = ref [] in
      let fin = ref false in
      while not !fin do
        skip ();
        if !pos >= n then failwith "unclosed";
        if s.[!pos] = ')' then (incr pos; fin := true)
        else items := one () :: !items
      done;
      L (Stdlib.List.rev !items)
    end else begin
      let st = !pos in
      while !pos < n && s.[!pos] <> ' ' && s.[!pos] <> '(' && s.[!pos] <> ')' do incr pos done;
      A (Stdlib.String.sub s st (!pos - st))
    end in
  one ()

let atom = function A s -> s | L _ -> failwith "atom expected"

let mkq num den : q =
  { qnum = z_of_string num; qden = Z.to_pos (z_of_string den) }

let xq_of = function
  | [A "inf"] -> PInf
  | [A "-inf"] -> NInf
  | [A n; A d] -> Fin (mkq n d)
  | [A n] -> Fin (mkq n "1")
  | _ -> failwith "bad number"

let rec val_of (x : sx) : val0 = match x with
  | A "N" -> VNone
  | L (A "b" :: r) -> VNum (KBool, xq_of r)
  | L (A "i" :: r) -> VNum (KInt, xq_of r)
  | L (A "f" :: r) -> VNum (KFloat, xq_of r)
  | L (A "d" :: r) -> VNum (KDecimal, xq_of r)
  | L (A "s" :: r) -> VStr (Stdlib.List.map (fun a -> z_of_string (atom a)) r)
  | L (A "y" :: r) -> VBytes (Stdlib.List.map (fun a -> z_of_string (atom a)) r)
  | L [A "D"; A z] -> VDate (z_of_string z)
  | L [A "T"; A z] -> VDatetime (z_of_string z)
  | L [A "t"; A z] -> VTime (z_of_string z)
  | L (A "tu" :: r) -> VSeq (false, Stdlib.List.map val_of r)
  | L (A "li" :: r) -> VSeq (true, Stdlib.List.map val_of r)
  | _ -> failwith "bad value"

let buf = Stdlib.Buffer.create 65536

let pr_xq tag x = match x with
  | PInf -> Stdlib.Buffer.add_string buf ("(" ^ tag ^ " inf)")
  | NInf -> Stdlib.Buffer.add_string buf ("(" ^ tag ^ " -inf)")
  | Fin q ->
    Stdlib.Buffer.add_string buf ("(" ^ tag ^ " " ^ string_of_z q.qnum ^ " " ^ string_of_pos q.qden ^ ")")

let rec pr_val (v : val0) : unit = match v with
  | VNone -> Stdlib.Buffer.add_string buf "N"
  | VNum (KBool, x) -> pr_xq "b" x
  | VNum (KInt, x) -> pr_xq "i" x
  | VNum (KFloat, x) -> pr_xq "f" x
  | VNum (KDecimal, x) -> pr_xq "d" x
  | VStr l -> Stdlib.Buffer.add_string buf "(s"; Stdlib.List.iter (fun z -> Stdlib.Buffer.add_char buf ' '; Stdlib.Buffer.add_string buf (string_of_z z)) l; Stdlib.Buffer.add_char buf ')'
  | VBytes l -> Stdlib.Buffer.add_string buf "(y"; Stdlib.List.iter (fun z -> Stdlib.Buffer.add_char buf ' '; Stdlib.Buffer.add_string buf (string_of_z z)) l; Stdlib.Buffer.add_char buf ')'
  | VDate z -> Stdlib.Buffer.add_string buf ("(D " ^ string_of_z z ^ ")")
  | VDatetime z -> Stdlib.Buffer.add_string buf ("(T " ^ string_of_z z ^ ")")
  | VTime z -> Stdlib.Buffer.add_string buf ("(t " ^ string_of_z z ^ ")")
  | VSeq (islist, l) ->
    Stdlib.Buffer.add_string buf (if islist then "(li" else "(tu");
    Stdlib.List.iter (fun x -> Stdlib.Buffer.add_char buf ' '; pr_val x) l;
    Stdlib.Buffer.add_char buf ')'

let () =
  (try
    while true do
      let line = input_line stdin in
      if Stdlib.String.length line > 0 then begin
        let i1 = Stdlib.String.index line ' ' in
        let id = Stdlib.String.sub line 0 i1 in
        let i2 = Stdlib.String.index_from line (i1 + 1) ' ' in
        let op = Stdlib.String.sub line (i1 + 1) (i2 - i1 - 1) in
        let pos = ref (i2 + 1) in
        Stdlib.Buffer.clear buf;
        Stdlib.Buffer.add_string buf id; Stdlib.Buffer.add_char buf ' ';
        (try
          let arg = val_of (parse_sx line pos) in
          let opz = Stdlib.List.init (Stdlib.String.length op) (fun i -> z_of_string (string_of_int (Stdlib.Char.code op.[i]))) in
          pr_val (run opz arg)
        with
        | Failure m -> Stdlib.Buffer.add_string buf ("(tu (s) " ^ "ERROR:" ^ m ^ ")")
        | Stack_overflow -> Stdlib.Buffer.add_string buf "ERROR:stack"
        | Not_found -> Stdlib.Buffer.add_string buf "ERROR:notfound");
        print_string (Stdlib.Buffer.contents buf); print_newline ()
      end
    done
  with End_of_file -> ())
