(* SortSpec.v — decidable form of "stable ordered permutation", used as the oracle on the implementation's output. *)
From Verif Require Import PyVal Rows ComparableGen AsIndicesGen Sort.
Open Scope Z_scope.

(* strict structural equality of values (kinds included) *)
Fixpoint val_eqb (a b : val) {struct a} : bool :=
  match a, b with
  | VNone, VNone => true
  | VNum k x, VNum k2 y =>
      (match k, k2 with KBool, KBool | KInt, KInt | KFloat, KFloat | KDecimal, KDecimal => true | _, _ => false end)
      && is_eq (xq_cmp x y)
  | VBytes x, VBytes y => zl_eqb x y
  | VStr x, VStr y => zl_eqb x y
  | VDate x, VDate y => Z.eqb x y
  | VDatetime x, VDatetime y => Z.eqb x y
  | VTime x, VTime y => Z.eqb x y
  | VSeq i l, VSeq j m =>
      Bool.eqb i j && (fix go (l m : list val) : bool :=
                         match l, m with
                         | [], [] => true
                         | x :: xs, y :: ys => val_eqb x y && go xs ys
                         | _, _ => false
                         end) l m
  | _, _ => false
  end.

Fixpoint list_eqb {A} (eqb : A -> A -> bool) (l m : list A) : bool :=
  match l, m with
  | [], [] => true
  | x :: xs, y :: ys => eqb x y && list_eqb eqb xs ys
  | _, _ => false
  end.
Definition row_eqb : row -> row -> bool := list_eqb val_eqb.
Definition rows_eqb : list row -> list row -> bool := list_eqb row_eqb.

Fixpoint adjacent_ok {A} (leb : A -> A -> bool) (l : list A) : bool :=
  match l with
  | x :: ((y :: _) as t) => leb x y && adjacent_ok leb t
  | _ => true
  end.

(* out is THE stable sort of rows: ordered, and every key class appears with exactly its members in input order *)
Definition stable_sorted_of (reverse : bool) (idx : list Z) (rows out : list row) : bool :=
  adjacent_ok (row_leb reverse idx) out
  && forallb (fun r => rows_eqb (filter (fun x => ceq (getkey idx x) (getkey idx r)) out)
                                (filter (fun x => ceq (getkey idx x) (getkey idx r)) rows)) (rows ++ out).

Definition sort_spec_holds (reverse : bool) (key : option val) (input output : table) : option bool :=
  match input, output with
  | hdr :: rows, ohdr :: out =>
      match key_indices hdr key with
      | Ok (i :: idx) => Some (row_eqb hdr ohdr && stable_sorted_of reverse (i :: idx) rows out)
      | _ => None
      end
  | _, _ => None
  end.
