(* DedupSpec.v — key-multiplicity specification of duplicates / unique / distinct (oracle + theorem target). *)
From Verif Require Import PyVal Rows ComparableGen AsIndicesGen Sort SortSpec Dedup.
Open Scope Z_scope.

Definition okey (gk : row -> option val) (r : row) : val := match gk r with Some k => k | None => VNone end.

Definition mult (gk : row -> option val) (k : val) (rows : list row) : nat :=
  length (filter (fun r => py_eq (okey gk r) k) rows).

Definition count_row (r : row) (rows : list row) : nat := length (filter (row_eqb r) rows).

Definition spec_duplicates gk (rows : list row) : list row := filter (fun r => (1 <? mult gk (okey gk r) rows)%nat) rows.
Definition spec_unique gk (rows : list row) : list row := filter (fun r => (mult gk (okey gk r) rows =? 1)%nat) rows.

(* same multiset of rows (strict structural equality) *)
Definition same_multiset (a b : list row) : bool :=
  (length a =? length b)%nat && forallb (fun r => (count_row r a =? count_row r b)%nat) (a ++ b).

Fixpoint pairwise_distinct_keys gk (rows : list row) : bool :=
  match rows with
  | [] => true
  | r :: t => negb (existsb (fun x => py_eq (okey gk x) (okey gk r)) t) && pairwise_distinct_keys gk t
  end.

Definition last_cell (r : row) : val := last r VNone.
Definition dec_count (v : val) : option nat :=
  match v with
  | VNum KInt (Fin q) => if (Zpos (Qden q) =? 1) && (0 <=? Qnum q) then Some (Z.to_nat (Qnum q)) else None
  | _ => None
  end.

(* judge the four outputs for one (table, key) *)
Definition dedup_spec_holds (key : option val) (t dups uniq dist distc : table) : option bool :=
  match t with
  | hdr :: rows =>
      match key_indices hdr key with
      | Ok (i :: idx) =>
          let gk := raw_getkey (i :: idx) in
          if forallb (fun r => match gk r with Some _ => true | None => false end) rows then
            Some (same_multiset (tl dups) (spec_duplicates gk rows)
                  && same_multiset (tl uniq) (spec_unique gk rows)
                  && same_multiset (tl dups ++ tl uniq) rows
                  (* distinct: one row per distinct key, each a row of the input *)
                  && pairwise_distinct_keys gk (tl dist)
                  && forallb (fun r => (0 <? count_row r rows)%nat) (tl dist)
                  && forallb (fun r => existsb (fun d => py_eq (okey gk d) (okey gk r)) (tl dist)) rows
                  (* counts: each equals the multiplicity of its key and they add up to nrows *)
                  && forallb (fun r => match dec_count (last_cell r) with
                                       | Some n => (n =? mult gk (okey gk (removelast r)) rows)%nat
                                       | None => false end) (tl distc)
                  && (fold_right (fun r acc => match dec_count (last_cell r) with Some n => (n + acc)%nat | None => acc end)
                                 O (tl distc) =? length rows)%nat
                  && (length (tl distc) =? length (tl dist))%nat)
          else None
      | _ => None
      end
  | [] => None
  end.
