(* GroupSpec.v — dictionary-style reference grouping (the spec of C09): one group per distinct key value, in ascending
   key order, each containing exactly the rows with that key in input order.  No sorting of rows, no groupby. *)
From Verif Require Import PyVal Rows Enc ComparableGen AsIndicesGen Sort SortSpec Basics Dedup Joins Reductions.
Open Scope Z_scope.

Fixpoint nub_ceq (seen : list val) (l : list val) : list val :=
  match l with
  | [] => rev seen
  | x :: t => if existsb (fun y => ceq y x) seen then nub_ceq seen t else nub_ceq (x :: seen) t
  end.

Definition ref_groups (kidx : list Z) (rows : list row) : list (val * list row) :=
  let keys := nub_ceq [] (pysort (fun a b => negb (clt b a)) (map (getkey kidx) rows)) in
  map (fun k => (k, filter (fun r => ceq (getkey kidx r) k) rows)) keys.

Definition group_values (vidx : option (list Z)) (g : list row) : option (list val) :=
  match vidx with
  | None => Some (map (fun r => VSeq false r) g)
  | Some idx => all_some (map (raw_getkey idx) g)
  end.

(* aggregate(table, key, agg, value): every output row is (key cells, agg of exactly the group's values) *)
Definition aggregate_spec_holds (key : val) (agg : Z) (value : option val) (t out : table) : option bool :=
  match t, out with
  | hdr :: rows, _ :: orows =>
      let key' := match key with VSeq _ [k] => k | k => k end in
      let agg' := if agg =? 0 then 8 else agg in
      match asindices hdr key', (match value with Some v => match asindices hdr v with Ok i => Some (Some i) | Err _ => None end
                                               | None => Some None end) with
      | Ok (i :: kidx), Some vidx =>
          let expect := map (fun kg => match group_values vidx (snd kg) with
                                       | Some vs => match apply_agg agg' false vs with
                                                    | Ok a => Some (key_cells key' (fst kg) ++ [a])
                                                    | Err _ => None
                                                    end
                                       | None => None
                                       end) (ref_groups (i :: kidx) rows) in
          match all_some expect with
          | Some e => Some (rows_eqb orows e)
          | None => None
          end
      | _, _ => None
      end
  | _, _ => None
  end.

(* conservation: the group counts add up to nrows *)
Definition counts_sum_holds (t out : table) : option bool :=
  match t, out with
  | _ :: rows, _ :: orows =>
      Some (fold_right (fun r acc => match last r VNone with VNum KInt (Fin q) => Qnum q + acc | _ => acc end) 0 orows
            =? zlen rows)
  | _, _ => None
  end.

(* groupselectfirst/last/min/max: one row per group, a member of its group; min/max: the FIRST extreme under the
   Comparable order of the value field *)
Definition groupselect_spec_holds (which : Z) (key value : val) (t out : table) : option bool :=
  match t, out with
  | hdr :: rows, ohdr :: orows =>
      match asindices hdr key with
      | Ok (i :: kidx) =>
          let gs := ref_groups (i :: kidx) rows in
          let pick := fun (g : list row) =>
            if which =? 0 then hd [] g
            else if which =? 1 then last g []
            else match asindices hdr value with
                 | Ok (vi :: vidx) =>
                     hd [] (pysort (row_leb (which =? 3) (vi :: vidx)) g)
                 | _ => []
                 end in
          Some (row_eqb hdr ohdr && rows_eqb orows (map (fun kg => pick (snd kg)) gs))
      | _ => None
      end
  | _, _ => None
  end.
