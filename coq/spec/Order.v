(* Order.v — the reference ordering the Comparable ladder is proved equal to:
   a plain lexicographic comparison on (rank, native value).  This is the "spec" side of C04. *)
From Verif Require Import PyVal.
Open Scope Z_scope.

(* rank: None, numbers, then the remaining types by the name _typestr gives them:
   'date' < 'datetime' < 'str'(bytes) < 'time' < 'tuple' < 'unicode'(text) *)
Definition vrank (v : val) : Z :=
  match v with
  | VNone => 0 | VNum _ _ => 1 | VDate _ => 2 | VDatetime _ => 3
  | VBytes _ => 4 | VTime _ => 5 | VSeq _ _ => 6 | VStr _ => 7
  end.

Section Lex.
  Context {A : Type} (c : A -> A -> comparison).
  Fixpoint lex (l1 l2 : list A) : comparison :=
    match l1, l2 with
    | [], [] => Eq
    | [], _ :: _ => Lt
    | _ :: _, [] => Gt
    | x :: xs, y :: ys => match c x y with Eq => lex xs ys | r => r end
    end.
End Lex.

Fixpoint vcmp (a b : val) {struct a} : comparison :=
  match a, b with
  | VNone, VNone => Eq
  | VNum _ x, VNum _ y => xq_cmp x y
  | VBytes x, VBytes y => zl_cmp x y
  | VStr x, VStr y => zl_cmp x y
  | VDate x, VDate y => Z.compare x y
  | VDatetime x, VDatetime y => Z.compare x y
  | VTime x, VTime y => Z.compare x y
  | VSeq _ l1, VSeq _ l2 =>
      (fix go (l1 l2 : list val) : comparison :=
         match l1, l2 with
         | [], [] => Eq
         | [], _ :: _ => Lt
         | _ :: _, [] => Gt
         | x :: xs, y :: ys => match vcmp x y with Eq => go xs ys | r => r end
         end) l1 l2
  | _, _ => Z.compare (vrank a) (vrank b)
  end.

Definition vlt (a b : val) : bool := is_lt (vcmp a b).
Definition veq (a b : val) : bool := is_eq (vcmp a b).
Definition vle (a b : val) : bool := negb (is_gt (vcmp a b)).
