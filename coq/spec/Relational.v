(* Relational.v — the nested-loop definitions of the join operators (the spec of C06/C07), and the decidable
   oracle that judges an implementation's output against them. *)
From Verif Require Import PyVal Rows ComparableGen AsIndicesGen Sort SortSpec Basics Joins.
Open Scope Z_scope.

Section NL.
  Variables (lhdr_len : nat) (lkind rkind rvind : list Z) (missing : val).
  Let lk := getkey lkind.
  Let rk := getkey rkind.
  Let jr := fun l r => l ++ rgetv rvind missing r.

  Definition matches_l (R : list row) (l : row) : list row := filter (fun r => ceq (lk l) (rk r)) R.
  Definition matches_r (L : list row) (r : row) : list row := filter (fun l => ceq (lk l) (rk r)) L.

  Definition nl_inner (L R : list row) : list row :=
    flat_map (fun l => map (jr l) (matches_l R l)) L.
  Definition nl_left_unmatched (L R : list row) : list row :=
    flat_map (fun l => match matches_l R l with [] => join_left_only rvind missing [l] | _ => [] end) L.
  Definition nl_right_unmatched (L R : list row) : list row :=
    flat_map (fun r => match matches_r L r with [] => join_right_only lhdr_len lkind rkind rvind missing [r] | _ => [] end) R.

  Definition nl_join (lo ro : bool) (L R : list row) : list row :=
    nl_inner L R ++ (if lo then nl_left_unmatched L R else []) ++ (if ro then nl_right_unmatched L R else []).

  (* lookupjoin: each left row with its FIRST partner only (first in the key-sorted, stable, right table) *)
  Definition nl_lookup (L R : list row) : list row :=
    map (fun l => match matches_l R l with r :: _ => jr l r | [] => l ++ map (fun _ => missing) rvind end) L.

  Definition nl_anti (L R : list row) : list row :=
    filter (fun l => match matches_l R l with [] => true | _ => false end) L.
End NL.

Definition count_row (r : row) (rows : list row) : nat := length (filter (row_eqb r) rows).
Definition same_rows (a b : list row) : bool :=
  (length a =? length b)%nat && forallb (fun r => (count_row r a =? count_row r b)%nat) (a ++ b).

(* judge a join output: header, multiset of data rows, ascending key order of the output *)
Definition join_spec_holds (kind : joinkind) (lkey rkey : val) (missing : val) (lprefix rprefix : option val)
           (left right out : table) : option bool :=
  let l0 := stack1 missing left in
  let r0 := stack1 missing right in
  match l0, r0, out with
  | lhdr :: L, rhdr :: R, ohdr :: OUT =>
      match asindices lhdr lkey, asindices rhdr rkey with
      | Ok (li :: lkind'), Ok (ri :: rkind') =>
          let lkind := li :: lkind' in
          let rkind := ri :: rkind' in
          let rvind := filter (fun i => negb (z_in i rkind)) (zrange (length rhdr) 0) in
          let outhdr := prefixed lprefix lhdr ++ prefixed rprefix (map (fun i => match py_nth rhdr i with Some v => v | None => VNone end) rvind) in
          let expect :=
            match kind with
            | JInner => nl_join (length lhdr) lkind rkind rvind missing false false L R
            | JLeft => nl_join (length lhdr) lkind rkind rvind missing true false L R
            | JRight => nl_join (length lhdr) lkind rkind rvind missing false true L R
            | JOuter => nl_join (length lhdr) lkind rkind rvind missing true true L R
            | JLookup =>
                (* first partner = first in the stable key-sorted right table *)
                nl_lookup lkind rkind rvind missing L (sort_data (row_leb false rkind) None R)
            end in
          Some (row_eqb outhdr ohdr && same_rows OUT expect
                && adjacent_ok (fun a b => cle (getkey lkind a) (getkey lkind b)) OUT)
      | _, _ => None
      end
  | _, _, _ => None
  end.

Definition antijoin_spec_holds (lkey rkey : val) (left right out : table) : option bool :=
  match left, right, out with
  | lhdr :: L, rhdr :: R, ohdr :: OUT =>
      match asindices lhdr lkey, asindices rhdr rkey with
      | Ok (li :: lkind'), Ok (ri :: rkind') =>
          Some (row_eqb lhdr ohdr && same_rows OUT (nl_anti (li :: lkind') (ri :: rkind') L R)
                && adjacent_ok (fun a b => cle (getkey (li :: lkind') a) (getkey (li :: lkind') b)) OUT)
      | _, _ => None
      end
  | _, _, _ => None
  end.

Definition crossjoin_spec_holds (missing : val) (tables : list table) (out : table) : option bool :=
  match out with
  | ohdr :: OUT =>
      let srcs := map (stack1 missing) tables in
      Some (row_eqb ohdr (concat (map (fun t => match t with h :: _ => h | [] => [] end) srcs))
            && rows_eqb OUT (product (map (fun t => tl t) srcs)))
  | [] => None
  end.

(* ---- hash joins: the nested-loop definition in the order of the streamed side (C07) ----------------- *)
Section NLStream.
  Variables (lhdr_len : nat) (lkind rkind rvind : list Z) (missing : val).
  Let lk := getkey lkind.
  Let rk := getkey rkind.
  Definition nls_left (leftouter : bool) (L R : list row) : list row :=
    flat_map (fun l => match matches_l lkind rkind R l with
                       | [] => if leftouter then join_left_only rvind missing [l] else []
                       | ms => map (fun r => l ++ rgetv rvind missing r) ms
                       end) L.
  Definition nls_right (L R : list row) : list row :=
    flat_map (fun r => match matches_r lkind rkind L r with
                       | [] => join_right_only lhdr_len lkind rkind rvind missing [r]
                       | ms => map (fun l => l ++ rgetv rvind missing r) ms
                       end) R.
End NLStream.

(* kind: 0 hashjoin, 1 hashleftjoin, 2 hashrightjoin, 3 hashlookupjoin *)
Definition hash_spec_holds (kind : nat) (lkey rkey : val) (missing : val) (left right out : table) : option bool :=
  let l0 := stack1 missing left in
  let r0 := stack1 missing right in
  match l0, r0, out with
  | lhdr :: L, rhdr :: R, ohdr :: OUT =>
      match asindices lhdr lkey, asindices rhdr rkey with
      | Ok (li :: lkind'), Ok (ri :: rkind') =>
          let lkind := li :: lkind' in
          let rkind := ri :: rkind' in
          let rvind := filter (fun i => negb (z_in i rkind)) (zrange (length rhdr) 0) in
          let expect :=
            match kind with
            | 0%nat => nls_left lkind rkind rvind missing false L R
            | 1%nat => nls_left lkind rkind rvind missing true L R
            | 2%nat => nls_right (length lhdr) lkind rkind rvind missing L R
            | _ => nl_lookup lkind rkind rvind missing L R
            end in
          Some (rows_eqb OUT expect)
      | _, _ => None
      end
  | _, _, _ => None
  end.

Definition hashanti_spec_holds (lkey rkey : val) (left right out : table) : option bool :=
  match left, right, out with
  | lhdr :: L, rhdr :: R, ohdr :: OUT =>
      match asindices lhdr lkey, asindices rhdr rkey with
      | Ok (li :: lkind'), Ok (ri :: rkind') =>
          Some (row_eqb lhdr ohdr && rows_eqb OUT (nl_anti (li :: lkind') (ri :: rkind') L R))
      | _, _ => None
      end
  | _, _, _ => None
  end.

(* two outputs agree: same header, same multiset of data rows *)
Definition same_table (a b : table) : option bool :=
  match a, b with
  | ha :: ra, hb :: rb => Some (row_eqb ha hb && same_rows ra rb)
  | _, _ => None
  end.
