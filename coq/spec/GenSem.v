(* GenSem.v — what a skeleton can do: traces of pull attempts and yields against a source with n rows left. *)
From Verif Require Import GenIR.
From Coq Require Import List Arith.
Import ListNotations.

Inductive ev := EP (* a row was pulled *) | EX (* a pull met the end of the source *) | EY (* a row was delivered *).
Inductive status := SN (* ran to its end *) | SR (* return / generator finished *) | SB | SC | SX (* exception *).

Definition pulls (t : list ev) : nat := length (filter (fun e => match e with EY => false | _ => true end) t).
Definition yields (t : list ev) : nat := length (filter (fun e => match e with EY => true | _ => false end) t).

(* exec s n t st n' : with n source rows left, s may produce the trace t and end with status st, n' rows left *)
Inductive exec : stmt -> nat -> list ev -> status -> nat -> Prop :=
| x_abort s n : exec s n [] SX n                          (* an exception may surface anywhere; the consumer may stop *)
| x_skip n : exec Skip n [] SN n
| x_pull n : exec Pull (S n) [EP] SN n
| x_pull_end_guarded : exec Pull 0 [EX] SN 0              (* StopIteration caught, or a default given *)
| x_pull_end : exec Pull 0 [EX] SR 0                      (* StopIteration ends the generator *)
| x_yield n : exec Yield n [EY] SN n
| x_eager n : exec Eager n (repeat EP n ++ [EX]) SN 0     (* the whole source, whatever its length *)
| x_ret n : exec Ret n [] SR n
| x_brk n : exec Brk n [] SB n
| x_cont n : exec Cont n [] SC n
| x_seq_n a b n t1 n1 t2 st n2 : exec a n t1 SN n1 -> exec b n1 t2 st n2 -> exec (Seq a b) n (t1 ++ t2) st n2
| x_seq_stop a b n t1 st n1 : st <> SN -> exec a n t1 st n1 -> exec (Seq a b) n t1 st n1
| x_alt_l a b n t st n1 : exec a n t st n1 -> exec (Alt a b) n t st n1
| x_alt_r a b n t st n1 : exec b n t st n1 -> exec (Alt a b) n t st n1
| x_try_ok a h n t st n1 : st <> SX -> exec a n t st n1 -> exec (Try a h) n t st n1
| x_try_catch a h n t1 n1 t2 st n2 : exec a n t1 SX n1 -> exec h n1 t2 st n2 -> exec (Try a h) n (t1 ++ t2) st n2
| x_for_end b : exec (For b) 0 [EX] SN 0
| x_for_iter b n t1 st1 n1 t2 st n2 :
    exec b n t1 st1 n1 -> (st1 = SN \/ st1 = SC) -> exec (For b) n1 t2 st n2 -> exec (For b) (S n) (EP :: t1 ++ t2) st n2
| x_for_brk b n t1 n1 : exec b n t1 SB n1 -> exec (For b) (S n) (EP :: t1) SN n1
| x_for_stop b n t1 st1 n1 : (st1 = SR \/ st1 = SX) -> exec b n t1 st1 n1 -> exec (For b) (S n) (EP :: t1) st1 n1
| x_rep_end b n : exec (Rep b) n [] SN n
| x_rep_iter b n t1 st1 n1 t2 st n2 :
    exec b n t1 st1 n1 -> (st1 = SN \/ st1 = SC) -> exec (Rep b) n1 t2 st n2 -> exec (Rep b) n (t1 ++ t2) st n2
| x_rep_brk b n t1 n1 : exec b n t1 SB n1 -> exec (Rep b) n t1 SN n1
| x_rep_stop b n t1 st1 n1 : (st1 = SR \/ st1 = SX) -> exec b n t1 st1 n1 -> exec (Rep b) n t1 st1 n1.

Definition prefix (u t : list ev) : Prop := exists v, t = u ++ v.
