(* SetSpec.v — multiset algebra of the set operations (oracle + theorem target). Rows are compared with ==. *)
From Verif Require Import PyVal Rows SortSpec SetOps.
Open Scope nat_scope.

Definition cnt (r : row) (l : list row) : nat := length (filter (row_eq r) l).

Definition expected_count (kind : nat) (strict : bool) (r : row) (a b : list row) : nat :=
  match kind with
  | 0 => if strict then (if 0 <? cnt r b then 0 else cnt r a) else cnt r a - cnt r b      (* complement *)
  | _ => Nat.min (cnt r a) (cnt r b)                                                        (* intersection *)
  end.

(* out has, for every row, the multiplicity the algebra prescribes; header is a's *)
Definition setop_spec_holds (kind : nat) (strict : bool) (ta tb out : table) : option bool :=
  match ta, tb, out with
  | ha :: a, _ :: b, ho :: o =>
      Some (row_eqb ha ho
            && forallb (fun r => cnt r o =? expected_count kind strict r a b) (a ++ b ++ o))
  | _, _, _ => None
  end.

(* complement and intersection reassemble a *)
Definition reassemble_holds (ta comp inter : table) : option bool :=
  match ta, comp, inter with
  | _ :: a, _ :: c, _ :: i => Some (forallb (fun r => cnt r c + cnt r i =? cnt r a) (a ++ c ++ i))
  | _, _, _ => None
  end.

(* o is a subsequence of a (hash variants keep a's order) *)
Fixpoint subseq (o a : list row) : bool :=
  match o, a with
  | [], _ => true
  | _ :: _, [] => false
  | x :: o', y :: a' => if row_eqb x y then subseq o' a' else subseq o a'
  end.
