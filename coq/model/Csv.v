(* Csv.v — model of CPython's _csv writer and reader (as used by petl.io.csv_py3 through
   TextIOWrapper(newline='')), over code points, parameterised by delimiter, quote character and quoting mode;
   line terminator '\r\n', doublequote on, no escapechar, not strict, no skipinitialspace (the csv defaults petl keeps). *)
From Verif Require Import PyVal Rows.
Open Scope Z_scope.

Inductive quoting := QMinimal | QAll | QNonNumeric | QNone.
Record dialect := { d_delim : Z; d_quote : Z; d_quoting : quoting }.

Definition CR : Z := 13.
Definition LF : Z := 10.

(* ---- writer ------------------------------------------------------------------------------------------------------ *)
(* a field is (text, is_number); None is written as empty text *)
Definition needs_quote (d : dialect) (c : Z) : bool :=
  (c =? d_delim d) || (c =? d_quote d) || (c =? CR) || (c =? LF).

Fixpoint escape_field (d : dialect) (s : list Z) : list Z :=
  match s with
  | [] => []
  | c :: t => if c =? d_quote d then c :: c :: escape_field d t else c :: escape_field d t
  end.

(* None = csv.Error (QUOTE_NONE and a character that needs escaping) *)
Definition write_field (d : dialect) (text : list Z) (numeric : bool) : option (list Z) :=
  let special := existsb (needs_quote d) text in
  match d_quoting d with
  | QNone => if special then None else Some text
  | QAll => Some (d_quote d :: escape_field d text ++ [d_quote d])
  | QNonNumeric => if numeric && negb special then Some text
                   else Some (d_quote d :: escape_field d text ++ [d_quote d])
  | QMinimal => if special then Some (d_quote d :: escape_field d text ++ [d_quote d]) else Some text
  end.

Fixpoint join_fields (d : dialect) (fs : list (list Z)) : list Z :=
  match fs with
  | [] => []
  | [f] => f
  | f :: rest => f ++ d_delim d :: join_fields d rest
  end.

(* writerow: a record that would be written as nothing (a single empty field) is written as a quoted empty field *)
Definition write_row (d : dialect) (r : list (list Z * bool)) : option (list Z) :=
  match all_some (map (fun f => write_field d (fst f) (snd f)) r) with
  | None => None
  | Some fs =>
      let body := join_fields d fs in
      match r, body with
      | [_], [] => match d_quoting d with
                   | QNone => None
                   | _ => Some ([d_quote d; d_quote d] ++ [CR; LF])
                   end
      | _, _ => Some (body ++ [CR; LF])
      end
  end.

Fixpoint write_rows (d : dialect) (rows : list (list (list Z * bool))) : option (list Z) :=
  match rows with
  | [] => Some []
  | r :: t => match write_row d r, write_rows d t with
              | Some a, Some b => Some (a ++ b)
              | _, _ => None
              end
  end.

(* ---- reader ------------------------------------------------------------------------------------------------------ *)
Inductive rstate := StartRecord | StartField | InField | InQuoted | QuoteInQuoted | EatCRNL.

(* parser registers: current state, field buffer (reversed), fields of the record (reversed) *)
Record reader := { r_state : rstate; r_field : list Z; r_fields : list (list Z) }.
Definition r_init : reader := {| r_state := StartRecord; r_field := []; r_fields := [] |}.

Definition save_field (r : reader) (st : rstate) : reader :=
  {| r_state := st; r_field := []; r_fields := rev (r_field r) :: r_fields r |}.
Definition add_char (r : reader) (c : Z) (st : rstate) : reader :=
  {| r_state := st; r_field := c :: r_field r; r_fields := r_fields r |}.
Definition set_state (r : reader) (st : rstate) : reader :=
  {| r_state := st; r_field := r_field r; r_fields := r_fields r |}.

Definition EOL : Z := -1.
Definition is_nl (c : Z) : bool := (c =? CR) || (c =? LF).

(* parse_process_char; None = csv.Error *)
Definition step (d : dialect) (r : reader) (c : Z) : option reader :=
  let start_field := fun (r : reader) =>
    if is_nl c || (c =? EOL) then Some (save_field r (if c =? EOL then StartRecord else EatCRNL))
    else if (c =? d_quote d) && negb (match d_quoting d with QNone => true | _ => false end)
         then Some (set_state r InQuoted)
    else if c =? d_delim d then Some (save_field r StartField)
    else Some (add_char r c InField) in
  match r_state r with
  | StartRecord =>
      if c =? EOL then Some r
      else if is_nl c then Some (set_state r EatCRNL)
      else start_field r
  | StartField => start_field r
  | InField =>
      if is_nl c || (c =? EOL) then Some (save_field r (if c =? EOL then StartRecord else EatCRNL))
      else if c =? d_delim d then Some (save_field r StartField)
      else Some (add_char r c InField)
  | InQuoted =>
      if c =? EOL then Some r
      else if (c =? d_quote d) && negb (match d_quoting d with QNone => true | _ => false end)
           then Some (set_state r QuoteInQuoted)
      else Some (add_char r c InQuoted)
  | QuoteInQuoted =>
      if negb (match d_quoting d with QNone => true | _ => false end) && (c =? d_quote d) then Some (add_char r c InQuoted)
      else if c =? d_delim d then Some (save_field r StartField)
      else if is_nl c || (c =? EOL) then Some (save_field r (if c =? EOL then StartRecord else EatCRNL))
      else Some (add_char r c InField)
  | EatCRNL =>
      if is_nl c then Some r
      else if c =? EOL then Some (set_state r StartRecord)
      else None
  end.

(* Reader.__next__ over the text as delivered by TextIOWrapper(newline=''): a line ends after LF, after CR LF, or after
   a CR not followed by LF (and at the end of the text); after each line the parser receives EOL.  A record is complete
   when the parser is back in StartRecord after an EOL; a blank line gives an empty record. *)
Definition line_ends (c : Z) (rest : list Z) : bool :=
  (c =? LF) || ((c =? CR) && negb (match rest with x :: _ => x =? LF | [] => false end))
  || match rest with [] => true | _ => false end.

Fixpoint read_all (d : dialect) (r : reader) (s : list Z) (acc : list (list (list Z)))
  : option (list (list (list Z))) :=
  match s with
  | [] =>
      (* end of input inside a record (only possible within a quoted field): the partial record is returned *)
      match r_state r with
      | StartRecord => Some (rev acc)
      | _ => Some (rev (rev (rev (r_field r) :: r_fields r) :: acc))
      end
  | c :: rest =>
      match step d r c with
      | None => None
      | Some r1 =>
          if line_ends c rest then
            match step d r1 EOL with
            | None => None
            | Some r2 =>
                match r_state r2 with
                | StartRecord =>
                    read_all d r_init rest (rev (r_fields r2) :: acc)
                | _ => read_all d r2 rest acc
                end
            end
          else read_all d r1 rest acc
      end
  end.

Definition parse (d : dialect) (s : list Z) : option (list (list (list Z))) := read_all d r_init s [].
