(* SetOps.v — model of petl.transform.setops: two-pointer merges over lexically sorted inputs
   (b-is-None sentinel, raw == vs Comparable <, exactly as written) and the Counter-based hash variants. *)
From Verif Require Import PyVal Rows ComparableGen AsIndicesGen Sort Basics.
Open Scope Z_scope.

Definition row_clt (a b : row) : bool := clt (VSeq false a) (VSeq false b).   (* Comparable(a) < Comparable(b) *)
Definition row_eq (a b : row) : bool := py_eq (VSeq false a) (VSeq false b).   (* a == b on tuples *)

(* itercomplement main loop; state (a, rest of a, b, rest of b).  Once b is exhausted (`b = None`) every
   remaining row of a is yielded, which is written here as `a :: ra` directly. *)
Fixpoint comp_loop (strict : bool) (a : row) (ra : list row) : row -> list row -> list row :=
  fix inner (bv : row) (rb : list row) : list row :=
    if row_clt a bv then a :: match ra with [] => [] | a' :: ra' => comp_loop strict a' ra' bv rb end
    else if row_eq a bv then
      match ra with
      | [] => []
      | a' :: ra' =>
          if strict then comp_loop strict a' ra' bv rb
          else match rb with
               | [] => a' :: ra'
               | b' :: rb' => comp_loop strict a' ra' b' rb'
               end
      end
    else match rb with [] => a :: ra | b' :: rb' => inner b' rb' end.

Definition itercomplement_data (strict : bool) (ra rb : list row) : list row :=
  match ra with
  | [] => []
  | a :: ra' => match rb with [] => a :: ra' | b :: rb' => comp_loop strict a ra' b rb' end
  end.

(* iterintersection main loop *)
Fixpoint inter_loop (a : row) (ra : list row) : row -> list row -> list row :=
  fix inner (b : row) (rb : list row) : list row :=
    if row_clt a b then match ra with [] => [] | a' :: ra' => inter_loop a' ra' b rb end
    else if row_eq a b then
      a :: match ra, rb with a' :: ra', b' :: rb' => inter_loop a' ra' b' rb' | _, _ => [] end
    else match rb with [] => [] | b' :: rb' => inner b' rb' end.

Definition iterintersection_data (ra rb : list row) : list row :=
  match ra, rb with a :: ra', b :: rb' => inter_loop a ra' b rb' | _, _ => [] end.

(* Counter keyed by tuple(row): an association list under == *)
Definition counter := list (row * Z).
Fixpoint cnt_get (c : counter) (r : row) : Z :=
  match c with [] => 0 | (k, n) :: t => if row_eq k r then n else cnt_get t r end.
Fixpoint cnt_add (c : counter) (r : row) (d : Z) : counter :=
  match c with
  | [] => [(r, d)]
  | (k, n) :: t => if row_eq k r then (k, n + d) :: t else (k, n) :: cnt_add t r d
  end.
Definition cnt_of (rows : list row) : counter := fold_left (fun c r => cnt_add c r 1) rows [].

Fixpoint hashcomp_loop (strict : bool) (c : counter) (ra : list row) : list row :=
  match ra with
  | [] => []
  | t :: rest =>
      if 0 <? cnt_get c t then hashcomp_loop strict (if strict then c else cnt_add c t (-1)) rest
      else t :: hashcomp_loop strict c rest
  end.

Fixpoint hashinter_loop (c : counter) (ra : list row) : list row :=
  match ra with
  | [] => []
  | t :: rest => if 0 <? cnt_get c t then t :: hashinter_loop (cnt_add c t (-1)) rest
                 else hashinter_loop c rest
  end.

Inductive setop := OpComplement (strict : bool) | OpIntersection | OpHashComplement (strict : bool) | OpHashIntersection.

(* sorted stage: sort(t) with key None unless presorted *)
Definition setop_model (op : setop) (presorted : bool) (bs : option nat) (ta tb : table) : gen :=
  match op with
  | OpHashComplement strict =>
      match ta, tb with
      | ha :: ra, _ :: rb => (ha :: hashcomp_loop strict (cnt_of rb) ra, None)
      | ha :: ra, [] => ([ha], Some StopIterLeak)
      | [], _ => ([], Some StopIterLeak)
      end
  | OpHashIntersection =>
      match ta, tb with
      | ha :: ra, _ :: rb => (ha :: hashinter_loop (cnt_of rb) ra, None)
      | ha :: ra, [] => ([ha], Some StopIterLeak)
      | [], _ => ([], Some StopIterLeak)
      end
  | _ =>
      let sa := if presorted then (ta, None) else sort_model bs false None ta in
      let sb := if presorted then (tb, None) else sort_model bs false None tb in
      match sa, sb with
      | (ha :: ra, ea), (hb :: rb, eb) =>
          match ea, eb with
          | None, None =>
              (ha :: match op with
                     | OpComplement strict => itercomplement_data strict ra rb
                     | _ => iterintersection_data ra rb
                     end, None)
          | Some e, _ => ([ha], Some e)
          | None, Some e => match op, ra with
                            | OpComplement _, [] => ([ha], None)     (* a exhausted first: b is never pulled *)
                            | _, _ => ([ha], Some e)
                            end
          end
      | _, _ => ([], Some StopIterLeak)
      end
  end.

(* recordcomplement(a, b) = complement(a, cut(b, *header(a))) after checking the field sets *)
Definition same_field_set (ha hb : row) : bool :=
  forallb (fun f => py_in f hb) ha && forallb (fun f => py_in f ha) hb.

Definition recordcomplement_model (strict : bool) (bs : option nat) (ta tb : table) : gen :=
  let ha := match ta with h :: _ => h | [] => [] end in
  let hb := match tb with h :: _ => h | [] => [] end in
  if same_field_set ha hb then
    match cut_model ha VNone tb with
    | (bv, None) => setop_model (OpComplement strict) false bs ta bv
    | (_, Some e) => ([ha], Some e)
    end
  else ([], Some AssertionErr).
