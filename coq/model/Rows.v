(* Rows.v — Python sequence primitives used by the operator models: indexing with negative indices,
   str() of simple values, list.index / `in` with ==, itertools.islice on lists. *)
From Verif Require Import PyVal.
Open Scope Z_scope.

Definition zlen {A} (l : list A) : Z := Z.of_nat (length l).

(* row[i] with Python's negative-index rule; None = IndexError *)
Definition py_nth {A} (l : list A) (i : Z) : option A :=
  let n := zlen l in
  let j := if i <? 0 then i + n else i in
  if (j <? 0) || (n <=? j) then None else nth_error l (Z.to_nat j).

(* first position of an element == x (list.index); None = ValueError / `x not in l` *)
Fixpoint py_index_from (x : val) (l : list val) (i : Z) : option Z :=
  match l with
  | [] => None
  | y :: t => if py_eq y x then Some i else py_index_from x t (i + 1)
  end.
Definition py_index (x : val) (l : list val) : option Z := py_index_from x l 0.
Definition py_in (x : val) (l : list val) : bool :=
  match py_index x l with Some _ => true | None => false end.

Fixpoint set_nth {A} (n : nat) (x : A) (l : list A) : list A :=
  match l, n with
  | [], _ => []
  | _ :: t, O => x :: t
  | y :: t, S m => y :: set_nth m x t
  end.

(* decimal rendering of integers *)
Fixpoint pos_digits (fuel : nat) (p : Z) (acc : list Z) : list Z :=
  match fuel with
  | O => acc
  | S f => if p <? 10 then (48 + p) :: acc else pos_digits f (p / 10) ((48 + p mod 10) :: acc)
  end.
Definition z_digits (z : Z) : list Z :=
  if z <? 0 then 45 :: pos_digits (Z.to_nat (Z.log2 (- z)) + 2) (- z) []
  else pos_digits (Z.to_nat (Z.log2 z) + 2) z [].

(* str(x) for the values whose rendering is modelled; None = not modelled *)
Definition py_str (v : val) : option (list Z) :=
  match v with
  | VStr s => Some s
  | VNone => Some (zs "None")
  | VNum KBool (Fin q) => Some (if Qeq_bool q 0 then zs "False" else zs "True")
  | VNum KInt (Fin q) => if Zpos (Qden q) =? 1 then Some (z_digits (Qnum q))
                         else if (Qnum q) mod (Zpos (Qden q)) =? 0 then Some (z_digits (Qnum q / Zpos (Qden q))) else None
  | _ => None
  end.

(* text_type(f) for header fields: identity on text; other kinds via py_str; unmodelled kinds keep the value
   (they can then only be selected by index) *)
Definition hdr_text (f : val) : val :=
  match py_str f with Some s => VStr s | None => f end.

Definition is_int (v : val) : bool :=
  match v with VNum KInt (Fin _) => true | VNum KBool (Fin _) => true | _ => false end.
Definition int_of (v : val) : Z :=
  match v with VNum _ (Fin q) => Qnum q / Zpos (Qden q) | _ => 0 end.

(* itertools.islice(it, 0, n) on a list, and the rest *)
Definition take {A} (n : nat) (l : list A) := firstn n l.
Definition drop {A} (n : nat) (l : list A) := skipn n l.

(* rows padded / trimmed to a width *)
Fixpoint pad_to (n : nat) (missing : val) (r : row) : row :=
  match n with
  | O => []
  | S m => match r with [] => missing :: pad_to m missing [] | x :: t => x :: pad_to m missing t end
  end.

Fixpoint all_some {A} (l : list (option A)) : option (list A) :=
  match l with
  | [] => Some []
  | Some x :: t => match all_some t with Some r => Some (x :: r) | None => None end
  | None :: _ => None
  end.

Fixpoint mapM {A B} (f : A -> res B) (l : list A) : res (list B) :=
  match l with
  | [] => Ok []
  | x :: t => match f x with
              | Err e => Err e
              | Ok y => match mapM f t with Ok r => Ok (y :: r) | Err e => Err e end
              end
  end.

(* CPython's `<` and `==` on RAW values (no Comparable): tuples with tuples, lists with lists;
   None = TypeError.  Sequence comparison: first index where == fails, then < there, else lengths. *)
Fixpoint py_lt (a b : val) {struct a} : option bool :=
  match a, b with
  | VSeq i1 l1, VSeq i2 l2 =>
      if Bool.eqb i1 i2 then
        (fix go (l1 l2 : list val) : option bool :=
           match l1, l2 with
           | [], [] => Some false
           | [], _ :: _ => Some true
           | _ :: _, [] => Some false
           | x :: xs, y :: ys => if py_eq x y then go xs ys else py_lt x y
           end) l1 l2
      else None
  | _, _ => native_scalar_lt a b
  end.
