(* Machines.v — views with state shared between their iterators, at the granularity of one next() call
   (DESIGN.md 3.4).  A machine has a view state S (shared) and an iterator state I (private).
   Modelled as repaired: SortView (cache bound to the generator at creation), CacheView (append only at the
   high-water mark), RandomTable / DummyTable (per-iterator generator state), hash-join views (cached lookup),
   DictsGeneratorView (shared one-shot generator + spill log). *)
From Verif Require Import PyVal Rows Enc ComparableGen AsIndicesGen Sort Basics.
Open Scope Z_scope.

Inductive out := ORow (r : row) | OStop | ORaise (e : exn).

Record vmachine (S I : Type) := {
  vm_iter : S -> S * I;               (* view.__iter__() *)
  vm_next : S -> I -> S * I * out     (* next(iterator) *)
}.
Arguments vm_iter {S I}.
Arguments vm_next {S I}.

Inductive sop := NewIter | Next (i : nat) | Close (i : nat).

(* trace entry: which iterator, what it returned *)
Definition trace := list (nat * out).

Fixpoint set_nth_opt {A} (n : nat) (x : option A) (l : list (option A)) : list (option A) :=
  match l, n with
  | [], _ => []
  | _ :: t, O => x :: t
  | y :: t, Datatypes.S m => y :: set_nth_opt m x t
  end.

Section Run.
  Context {S I : Type} (m : vmachine S I).
  (* live iterators: None once closed / exhausted-and-dropped *)
  Fixpoint mrun (ops : list sop) (s : S) (its : list (option I)) (acc : trace) : S * list (option I) * trace :=
    match ops with
    | [] => (s, its, rev acc)
    | NewIter :: rest => let '(s', i) := vm_iter m s in mrun rest s' (its ++ [Some i]) acc
    | Next k :: rest =>
        match nth_error its k with
        | Some (Some i) => let '(s', i', o) := vm_next m s i in
                           mrun rest s' (set_nth_opt k (Some i') its) ((k, o) :: acc)
        | _ => mrun rest s its acc          (* next on a closed iterator: ignored by the harness *)
        end
    | Close k :: rest => mrun rest s (set_nth_opt k None its) acc
    end.

  (* one uninterrupted pass of a fresh iterator, at most `fuel` next() calls *)
  Fixpoint drain (fuel : nat) (s : S) (i : I) : S * list out :=
    match fuel with
    | O => (s, [])
    | Datatypes.S f => let '(s', i', o) := vm_next m s i in
                       match o with
                       | ORow _ => let '(s'', os) := drain f s' i' in (s'', o :: os)
                       | _ => (s', [o])
                       end
    end.
  Definition pass (fuel : nat) (s : S) : S * list out := let '(s', i) := vm_iter m s in drain fuel s' i.
End Run.

Definition outs_of_gen (g : gen) : list out :=
  map ORow (fst g) ++ [match snd g with Some e => ORaise e | None => OStop end].

(* ---- stateless views: a cursor into the (deterministic) result of the operator ---------------------- *)
Definition stateless_machine (result : list out) : vmachine unit (list out) :=
  {| vm_iter := fun s => (s, result);
     vm_next := fun s i => match i with
                           | [] => (s, [], OStop)
                           | o :: rest => (s, match o with ORow _ => rest | _ => [] end, o)
                           end |}.

(* ---- SortView ----------------------------------------------------------------------------------------- *)
Record sv_cfg := { sv_key : option val; sv_reverse : bool; sv_bs : option nat; sv_cache : bool }.
Record sv_state := { sv_src : table; sv_pulls : Z; sv_cached : option (row * list row) }.
Inductive sv_iter :=
| SvFresh                                  (* _iternocache, not started *)
| SvHeaderDone (hdr : row)                 (* header yielded; the sort happens at the next step *)
| SvRows (rest : list row)                 (* yielding its own sorted rows *)
| SvFromCache (hdr : row) (rows : list row)   (* bound to the cache at creation *)
| SvDone.

Definition sort_input (src : table) (hdr : row) : table := match src with [] => [hdr] | _ :: _ => src end.

Definition sv_machine (c : sv_cfg) : vmachine sv_state sv_iter :=
  {| vm_iter := fun s =>
       match sv_cached s with
       | Some (h, rows) => if sv_cache c then (s, SvFromCache h rows) else (s, SvFresh)
       | None => (s, SvFresh)
       end;
     vm_next := fun s i =>
       match i with
       | SvFresh =>
           (* clearcache(); it = iter(source); hdr = next(it) *)
           let s0 := {| sv_src := sv_src s; sv_pulls := sv_pulls s; sv_cached := None |} in
           match sv_src s with
           | [] => match sv_key c with
                   | None => (s0, SvDone, OStop)
                   | Some _ => (s0, SvHeaderDone [], ORow [])
                   end
           | hdr :: _ => ({| sv_src := sv_src s; sv_pulls := sv_pulls s + 1; sv_cached := None |},
                          SvHeaderDone hdr, ORow hdr)
           end
       | SvHeaderDone hdr =>
           match sort_model (sv_bs c) (sv_reverse c) (sv_key c) (sort_input (sv_src s) hdr) with
           | (_ :: rows, None) =>
               let s' := {| sv_src := sv_src s; sv_pulls := sv_pulls s + zlen (tl (sv_src s));
                            sv_cached := if sv_cache c then Some (hdr, rows) else sv_cached s |} in
               match rows with
               | [] => (s', SvDone, OStop)
               | r :: rest => (s', SvRows rest, ORow r)
               end
           | (_, Some e) => (s, SvDone, ORaise e)
           | ([], None) => (s, SvDone, OStop)
           end
       | SvRows [] => (s, SvDone, OStop)
       | SvRows (r :: rest) => (s, SvRows rest, ORow r)
       | SvFromCache h rows => (s, SvRows rows, ORow h)
       | SvDone => (s, SvDone, OStop)
       end |}.

Definition sv_init (t : table) : sv_state := {| sv_src := t; sv_pulls := 0; sv_cached := None |}.
Definition sv_edit (t : table) (s : sv_state) : sv_state :=
  {| sv_src := t; sv_pulls := sv_pulls s; sv_cached := sv_cached s |}.

(* ---- CacheView ------------------------------------------------------------------------------------------ *)
Record cv_state := { cv_inner : table; cv_cache : list row; cv_complete : bool; cv_pulls : Z }.
Inductive cv_iter :=
| CvServing (pos : nat)            (* for row in self.cache: a live index into the shared list *)
| CvRemainder (i : nat)            (* islice(iter(inner), i, None), i = index of the next inner row *)
| CvDone.

Definition cv_room (n : option nat) (s : cv_state) : bool :=
  match n with None => true | Some O => true | Some k => (length (cv_cache s) <? k)%nat end.

Definition cv_machine (n : option nat) : vmachine cv_state cv_iter :=
  {| vm_iter := fun s => (s, CvServing O);
     vm_next := fun s i =>
       (* the remainder loop, from inner index j *)
       let remainder := fun (s : cv_state) (j : nat) (first : bool) =>
         (* `first`: iter(inner) + islice skip pulls j rows before the first delivery *)
         let skip := if first then Z.of_nat (Nat.min j (length (cv_inner s))) else 0 in
         match nth_error (cv_inner s) j with
         | Some row =>
             let append := cv_room n s && (j =? length (cv_cache s))%nat in
             ({| cv_inner := cv_inner s;
                 cv_cache := if append then cv_cache s ++ [row] else cv_cache s;
                 cv_complete := cv_complete s; cv_pulls := cv_pulls s + skip + 1 |},
              CvRemainder (Datatypes.S j), ORow row)
         | None =>
             ({| cv_inner := cv_inner s; cv_cache := cv_cache s;
                 cv_complete := if cv_room n s then true else cv_complete s;
                 cv_pulls := cv_pulls s + skip |}, CvDone, OStop)
         end in
       match i with
       | CvServing pos =>
           match nth_error (cv_cache s) pos with
           | Some row => (s, CvServing (Datatypes.S pos), ORow row)
           | None => if cv_complete s then (s, CvDone, OStop) else remainder s (length (cv_cache s)) true
           end
       | CvRemainder j => remainder s j false
       | CvDone => (s, CvDone, OStop)
       end |}.

Definition cv_init (t : table) : cv_state := {| cv_inner := t; cv_cache := []; cv_complete := false; cv_pulls := 0 |}.

(* ---- histories of (edit source, full pass) steps: the cache clause of C11 ------------------------------ *)
Inductive hop := HEdit (t : table) | HPass.

(* per pass: what it yielded and how many source rows it pulled *)
Fixpoint sv_history (c : sv_cfg) (fuel : nat) (ops : list hop) (s : sv_state) : list (list out * Z) :=
  match ops with
  | [] => []
  | HEdit t :: rest => sv_history c fuel rest (sv_edit t s)
  | HPass :: rest => let '(s', os) := pass (sv_machine c) fuel s in
                     (os, sv_pulls s' - sv_pulls s) :: sv_history c fuel rest s'
  end.

(* ---- DictsGeneratorView: fromdicts(<generator>) ---------------------------------------------------------- *)
(* the one-shot generator is shared by all iterators; rows already drawn are kept in a spill file (a log);
   `dg_cached` = number of rows in the log, an iterator holds its own position in the log *)
Record dg_state := { dg_header : row; dg_rows : list row; dg_cached : nat }.
Inductive dg_iter := DgFresh | DgAt (pos : nat) | DgDone.

Definition dg_machine : vmachine dg_state dg_iter :=
  {| vm_iter := fun s => (s, DgFresh);
     vm_next := fun s i =>
       match i with
       | DgFresh => (s, DgAt O, ORow (dg_header s))
       | DgAt pos =>
           if (pos <? dg_cached s)%nat then
             match nth_error (dg_rows s) pos with
             | Some r => (s, DgAt (Datatypes.S pos), ORow r)
             | None => (s, DgDone, ORaise OtherErr)
             end
           else
             match nth_error (dg_rows s) (dg_cached s) with
             | Some r => ({| dg_header := dg_header s; dg_rows := dg_rows s; dg_cached := Datatypes.S (dg_cached s) |},
                          DgAt (Datatypes.S (dg_cached s)), ORow r)
             | None => (s, DgDone, OStop)
             end
       | DgDone => (s, DgDone, OStop)
       end |}.
Definition dg_init (hdr : row) (rows : list row) : dg_state := {| dg_header := hdr; dg_rows := rows; dg_cached := O |}.
