(* TempFiles.v — lifetime of the temporary files of an external sort and of fromdicts(<generator>).

   What keeps a chunk file alive in petl/transform/sorts.py is a _NamedTempFileDeleteOnGC wrapper (unlink in __del__);
   the wrappers of one sorting pass form a group, referenced from
     * the local list `chunkfiles` of the generator that wrote them (_iternocache),
     * the view's `_filecache` when caching is on (until clearcache(), i.e. until an iterator re-sorts),
     * the parameter `filecache` of every generator serving from the file cache (_iterfromfilecache).
   Every generator frame also references the view (`self`), so the view is reachable while the caller holds it or any
   unfinished iterator.  CPython frees an object as soon as it is unreachable (the harness adds gc.collect()), which the
   model renders as [gc] after every operation.  Rows are abstracted to counts: what is delivered is C01's business;
   here a next() either delivers, stops, raises (failing source) or — never, by the theorem — finds its file missing.

   DictsGeneratorView (petl/io/json.py): one spill file, created by the first iterator that gets past the header,
   closed and unlinked by the view's __del__. *)
From Verif Require Import PyVal.

Record tf_cfg := {
  tf_n : nat;                  (* data rows of the source *)
  tf_bs : option nat;          (* buffersize (>= 1) *)
  tf_cache : bool;
  tf_fail : option nat         (* the source raises: Some 0 at the header, Some (S r) when data row r is requested *)
}.

Inductive frame :=
| FrNoCache                    (* _iternocache, not yet advanced *)
| FrHdr                        (* _iternocache after the header *)
| FrMem (rest : nat)           (* _iternocache serving its in-memory rows *)
| FrMerge (g rest : nat)       (* _iternocache merging the chunk files of group g (local chunkfiles) *)
| FrMemCache0
| FrMemCache (rest : nat)      (* _iterfrommemcache *)
| FrFile0 (g : nat)            (* _iterfromfilecache, not yet advanced: parameter filecache = group g *)
| FrFile (g rest : nat)
| FrDone.                      (* finished, raised, closed or dropped: the frame is gone *)

Record tf_state := {
  disk : list nat;             (* groups whose files exist *)
  next_g : nat;
  handle : bool;               (* the caller still holds the view *)
  fcache : option nat;         (* view._filecache *)
  mcache : bool;               (* view._memcache is not None *)
  frames : list frame
}.

Inductive top := TNew | TNext (k : nat) | TDropIter (k : nat) | TDropView.
Inductive tout := TRow | TStop | TRaise | TMissing.

Definition frame_live (f : frame) : bool := match f with FrDone => false | _ => true end.
Definition frame_holds (g : nat) (f : frame) : bool :=
  match f with
  | FrMerge g' _ | FrFile0 g' | FrFile g' _ => Nat.eqb g g'
  | _ => false
  end.

Definition view_reachable (s : tf_state) : bool := handle s || existsb frame_live (frames s).
Definition held (s : tf_state) (g : nat) : bool :=
  (view_reachable s && match fcache s with Some g' => Nat.eqb g g' | None => false end)
  || existsb (frame_holds g) (frames s).

(* unreachable wrappers are finalised: their files are unlinked *)
Definition gc (s : tf_state) : tf_state :=
  {| disk := filter (held s) (disk s); next_g := next_g s; handle := handle s; fcache := fcache s; mcache := mcache s;
     frames := frames s |}.

Fixpoint upd {A} (k : nat) (x : A) (l : list A) : list A :=
  match l, k with
  | [], _ => []
  | _ :: t, O => x :: t
  | y :: t, S k' => y :: upd k' x t
  end.

Definition fits (c : tf_cfg) : bool :=
  match tf_bs c with None => true | Some b => Nat.ltb (tf_n c) b end.
Definition on_disk (g : nat) (s : tf_state) : bool := existsb (Nat.eqb g) (disk s).

Definition with_frame (s : tf_state) (k : nat) (f : frame) : tf_state :=
  {| disk := disk s; next_g := next_g s; handle := handle s; fcache := fcache s; mcache := mcache s;
     frames := upd k f (frames s) |}.

(* deliver one of `rest` remaining rows from a frame built by `mk` *)
Definition serve (s : tf_state) (k : nat) (rest : nat) (mk : nat -> frame) : tf_state * tout :=
  match rest with
  | O => (with_frame s k FrDone, TStop)
  | S r => (with_frame s k (mk r), TRow)
  end.

Definition next_frame (c : tf_cfg) (s : tf_state) (k : nat) (f : frame) : tf_state * tout :=
  match f with
  | FrNoCache =>
      (* self.clearcache(); hdr = next(it); yield hdr *)
      let s1 := {| disk := disk s; next_g := next_g s; handle := handle s; fcache := None; mcache := false;
                   frames := frames s |} in
      match tf_fail c with
      | Some O => (with_frame s1 k FrDone, TRaise)
      | _ => (with_frame s1 k FrHdr, TRow)
      end
  | FrHdr =>
      match tf_fail c with
      | Some (S _) => (with_frame s k FrDone, TRaise)          (* raised while reading / dumping the chunks *)
      | _ =>
          if fits c then
            let s1 := {| disk := disk s; next_g := next_g s; handle := handle s; fcache := fcache s;
                         mcache := if tf_cache c then true else mcache s; frames := frames s |} in
            serve s1 k (tf_n c) FrMem
          else
            let g := next_g s in
            let s1 := {| disk := g :: disk s; next_g := S g; handle := handle s;
                         fcache := if tf_cache c then Some g else fcache s; mcache := mcache s; frames := frames s |} in
            serve s1 k (tf_n c) (FrMerge g)
      end
  | FrMem rest => serve s k rest FrMem
  | FrMerge g rest => if on_disk g s then serve s k rest (FrMerge g) else (with_frame s k FrDone, TMissing)
  | FrMemCache0 => (with_frame s k (FrMemCache (tf_n c)), TRow)
  | FrMemCache rest => serve s k rest FrMemCache
  | FrFile0 g => (with_frame s k (FrFile g (tf_n c)), TRow)
  | FrFile g rest => if on_disk g s then serve s k rest (FrFile g) else (with_frame s k FrDone, TMissing)
  | FrDone => (s, TStop)
  end.

Definition new_frame (c : tf_cfg) (s : tf_state) : frame :=
  if tf_cache c && mcache s then FrMemCache0
  else match (if tf_cache c then fcache s else None) with
       | Some g => FrFile0 g
       | None => FrNoCache
       end.

Definition tf_step (c : tf_cfg) (s : tf_state) (o : top) : tf_state * option tout :=
  match o with
  | TNew =>
      if handle s then
        (gc {| disk := disk s; next_g := next_g s; handle := handle s; fcache := fcache s; mcache := mcache s;
               frames := frames s ++ [new_frame c s] |}, None)
      else (s, None)
  | TNext k =>
      match nth_error (frames s) k with
      | Some f => let '(s', o') := next_frame c s k f in (gc s', Some o')
      | None => (s, None)
      end
  | TDropIter k => (gc (with_frame s k FrDone), None)
  | TDropView =>
      (gc {| disk := disk s; next_g := next_g s; handle := false; fcache := fcache s; mcache := mcache s;
             frames := frames s |}, None)
  end.

Definition tf_init : tf_state :=
  {| disk := []; next_g := O; handle := true; fcache := None; mcache := false; frames := [] |}.

(* the observation after every operation: what next() returned (if it was one) and how many groups are on disk *)
Fixpoint tf_run (c : tf_cfg) (ops : list top) (s : tf_state) : list (option tout * nat) * tf_state :=
  match ops with
  | [] => ([], s)
  | o :: rest =>
      let '(s', out) := tf_step c s o in
      let '(tr, sf) := tf_run c rest s' in
      ((out, length (disk s')) :: tr, sf)
  end.

Definition all_released (s : tf_state) : bool := negb (handle s) && forallb (fun f => negb (frame_live f)) (frames s).

(* files per group: ceil(n / b) *)
Definition chunks_per_group (c : tf_cfg) : nat :=
  match tf_bs c with
  | Some b => match b with O => O | S _ => Nat.div (tf_n c + b - 1) b end
  | None => O
  end.

(* ---- fromdicts(<generator>) : one spill file -------------------------------------------------------------------------- *)
Inductive dframe := DfFresh | DfRun | DfDone.
Record df_state := { df_file : bool; df_handle : bool; df_frames : list dframe }.
Definition dframe_live (f : dframe) : bool := match f with DfDone => false | _ => true end.
Definition df_reachable (s : df_state) : bool := df_handle s || existsb dframe_live (df_frames s).
(* __del__ of the unreachable view: close and unlink *)
Definition df_gc (s : df_state) : df_state :=
  {| df_file := df_file s && df_reachable s; df_handle := df_handle s; df_frames := df_frames s |}.

(* `last` : does this next() find the shared generator exhausted (decided by C01's machine; here an input) *)
Definition df_step (s : df_state) (o : top) (last : bool) : df_state :=
  match o with
  | TNew => if df_handle s then df_gc {| df_file := df_file s; df_handle := true; df_frames := df_frames s ++ [DfFresh] |} else s
  | TNext k =>
      match nth_error (df_frames s) k with
      | Some DfFresh => df_gc {| df_file := df_file s; df_handle := df_handle s; df_frames := upd k DfRun (df_frames s) |}
      | Some DfRun =>
          (* if not self._filecache: create it; then serve from the log or draw from the generator *)
          df_gc {| df_file := true; df_handle := df_handle s;
                   df_frames := upd k (if last then DfDone else DfRun) (df_frames s) |}
      | _ => s
      end
  | TDropIter k => df_gc {| df_file := df_file s; df_handle := df_handle s; df_frames := upd k DfDone (df_frames s) |}
  | TDropView => df_gc {| df_file := df_file s; df_handle := false; df_frames := df_frames s |}
  end.
Definition df_init : df_state := {| df_file := false; df_handle := true; df_frames := [] |}.
Fixpoint df_run (ops : list (top * bool)) (s : df_state) : list bool * df_state :=
  match ops with
  | [] => ([], s)
  | (o, l) :: rest => let s' := df_step s o l in let '(tr, sf) := df_run rest s' in (df_file s' :: tr, sf)
  end.
Definition df_released (s : df_state) : bool := negb (df_handle s) && forallb (fun f => negb (dframe_live f)) (df_frames s).
