(* Sort.v — model of petl.transform.sorts: SortView._iternocache (in-memory and chunked), the two chunk
   mergers, and mergesort.  CPython primitives are modelled as in DESIGN.md 3.5:
     list.sort(key, reverse)  = stable insertion sort w.r.t. the (possibly reversed) key order
     heapq.merge / min / max  = repeatedly take the FIRST minimal (maximal) head                     *)
From Verif Require Import PyVal Rows ComparableGen AsIndicesGen.
Open Scope Z_scope.

(* ---- generic sorting / merging over a "not after" relation leb --------------------------- *)
Section Generic.
  Context {A : Type} (leb : A -> A -> bool).

  Fixpoint insert (x : A) (s : list A) : list A :=
    match s with
    | [] => [x]
    | y :: t => if leb x y then x :: y :: t else y :: insert x t
    end.
  Definition pysort (l : list A) : list A := fold_right insert [] l.

  (* first-minimal head among the non-exhausted runs, and the runs after consuming it *)
  Fixpoint select (cs : list (list A)) : option (A * list (list A)) :=
    match cs with
    | [] => None
    | [] :: rest => select rest
    | (x :: c) :: rest =>
        match select rest with
        | None => Some (x, [c])
        | Some (y, rest') => if leb x y then Some (x, c :: rest) else Some (y, (x :: c) :: rest')
        end
    end.

  Fixpoint kmerge (fuel : nat) (cs : list (list A)) : list A :=
    match fuel with
    | O => []
    | S f => match select cs with
             | None => []
             | Some (y, cs') => y :: kmerge f cs'
             end
    end.

  Fixpoint chunks (fuel b : nat) (rows : list A) : list (list A) :=
    match fuel with
    | O => []
    | S f => match rows with
             | [] => []
             | _ => firstn b rows :: chunks f b (skipn b rows)
             end
    end.

  Definition total_len (cs : list (list A)) : nat := fold_right (fun c n => (length c + n)%nat) O cs.

  (* SortView._iternocache after the header: memory/disk decision, chunk loop, merge *)
  Definition sort_data (bs : option nat) (rows : list A) : list A :=
    match bs with
    | None => pysort rows
    | Some b =>
        let first := firstn b rows in
        if (length first <? b)%nat then pysort first
        else let cs := map pysort (chunks (length rows) b rows) in
             kmerge (total_len cs) cs
    end.
End Generic.

(* ---- keys ------------------------------------------------------------------------------------ *)
Definition cell_or_default (r : row) (i : Z) : val :=
  match py_nth r i with Some v => v | None => missing_key_default end.

(* comparable_itemgetter( *indices )(row): the object wrapped in Comparable *)
Definition getkey (indices : list Z) (r : row) : val :=
  match indices with
  | [i] => cell_or_default r i
  | _ => VSeq false (map (cell_or_default r) indices)
  end.

Definition row_leb (reverse : bool) (indices : list Z) (r1 r2 : row) : bool :=
  if reverse then negb (clt (getkey indices r1) (getkey indices r2))
  else negb (clt (getkey indices r2) (getkey indices r1)).

Fixpoint zrange (n : nat) (start : Z) : list Z :=
  match n with O => [] | S m => start :: zrange m (start + 1) end.

(* key indices of a sort-like view: asindices(hdr, key) or all positions when key is None *)
Definition key_indices (hdr : row) (key : option val) : res (list Z) :=
  match key with
  | Some k => asindices hdr k
  | None => Ok (zrange (length hdr) 0)
  end.

(* sort(table, key, reverse, buffersize): one uncached pass *)
Definition sort_model (bs : option nat) (reverse : bool) (key : option val) (t : table) : gen :=
  match t with
  | [] => match key with
          | None => ([], None)
          | Some k => match asindices [] k with
                      | Err e => ([[]], Some e)
                      | Ok [] => ([[]], Some TypeErr)
                      | Ok _ => ([[]], None)
                      end
          end
  | hdr :: rows =>
      match key_indices hdr key with
      | Err e => ([hdr], Some e)
      | Ok [] => ([hdr], Some TypeErr)        (* operator.itemgetter() without arguments *)
      | Ok indices => (hdr :: sort_data (row_leb reverse indices) bs rows, None)
      end
  end.

(* ---- mergesort ------------------------------------------------------------------------------ *)
(* _shortlistmergesorted as written: min()/max() scan the shortlist left to right and replace the
   candidate when the item is strictly better; the comparison may raise (raw tuples, key=None). *)
Section Shortlist.
  Context {A : Type} (better : A -> A -> option bool).   (* item better than current best? *)

  Fixpoint scan_best (best : A) (besti : nat) (i : nat) (l : list A) : res nat :=
    match l with
    | [] => Ok besti
    | x :: t => match better x best with
                | None => Err TypeErr
                | Some true => scan_best x i (S i) t
                | Some false => scan_best best besti (S i) t
                end
    end.

  (* runs = the non-exhausted iterators (head = shortlist entry) *)
  Fixpoint remove_nth {B} (n : nat) (l : list B) : list B :=
    match l, n with
    | [], _ => []
    | _ :: t, O => t
    | x :: t, S m => x :: remove_nth m t
    end.

  Fixpoint shortlist_merge (fuel : nat) (runs : list (list A)) (acc : list A) : list A * option exn :=
    match fuel with
    | O => (rev acc, None)
    | S f =>
        match runs with
        | [] => (rev acc, None)
        | (h0 :: _) :: _ =>
            match scan_best h0 O 1 (map (fun r => hd h0 r) (tl runs)) with
            | Err e => (rev acc, Some e)
            | Ok i => match nth_error runs i with
                      | Some (x :: []) => shortlist_merge f (remove_nth i runs) (x :: acc)
                      | Some (x :: rest) => shortlist_merge f (set_nth i rest runs) (x :: acc)
                      | _ => (rev acc, Some OtherErr)
                      end
            end
        | [] :: _ => (rev acc, Some OtherErr)      (* unreachable: exhausted runs are removed *)
        end
    end.
End Shortlist.

Definition nonempty {A} (l : list A) : bool := match l with [] => false | _ => true end.

(* header union of itermergesort: text_type of every field, first occurrence order, no duplicates *)
Fixpoint union_fields (acc : list val) (fs : list val) : list val :=
  match fs with
  | [] => acc
  | f :: t => if py_in f acc then union_fields acc t else union_fields (acc ++ [f]) t
  end.

(* _standardisedata for one row *)
Definition standardise_row (flds ofs : list val) (missing : val) (r : row) : row :=
  let direct := map (fun fo => match py_index fo flds with
                               | Some i => match py_nth r i with Some v => Some v | None => None end
                               | None => Some missing
                               end) ofs in
  match all_some direct with
  | Some out => out
  | None =>
      (* short row: outrow[ofs.index(fi)] = row[i] for every source field that is present *)
      (fix fill (i : Z) (fl : list val) (out : row) : row :=
         match fl with
         | [] => out
         | fi :: t =>
             let out' := match py_nth r i, py_index fi ofs with
                         | Some v, Some j => set_nth (Z.to_nat j) v out
                         | _, _ => out
                         end in
             fill (i + 1) t out'
         end) 0 flds (map (fun _ => missing) ofs)
  end.

Definition gen_rows (g : gen) : list row := fst g.

(* mergesort( *tables, key, reverse, presorted, missing, header, buffersize) *)
Definition mergesort_model (key : option val) (reverse presorted : bool) (missing : val) (header : option row)
           (bs : option nat) (tables : list table) : gen :=
  (* the per-table sorts happen lazily inside iteration; an error in one of them surfaces when its header is read *)
  let sorted := map (fun t => if presorted then (t, None) else sort_model bs reverse key t) tables in
  match find (fun g => match snd g with Some _ => true | None => false end) sorted with
  | Some (part, Some e) =>
      (* the failing source raises when its first data row is pulled, i.e. after the output header *)
      let hdrs := map (fun g => match fst g with h :: _ => h | [] => [] end) sorted in
      let outhdr := match header with Some h => h | None => union_fields [] (map hdr_text (concat hdrs)) end in
      ([outhdr], Some e)
  | _ =>
      let srcs := map fst sorted in
      let hdrs := map (fun t => match t with h :: _ => h | [] => [] end) srcs in
      let outhdr := match header with Some h => h | None => union_fields [] (map hdr_text (concat hdrs)) end in
      let sits := map (fun t => match t with
                                | h :: rows => map (standardise_row (map hdr_text h) outhdr missing) rows
                                | [] => []
                                end) srcs in
      let runs := filter nonempty sits in
      let fuel := S (total_len runs) in
      match key with
      | None =>
          (* min()/max() over raw tuples *)
          let better := fun (x best : row) =>
                          if reverse then py_lt (VSeq false best) (VSeq false x) else py_lt (VSeq false x) (VSeq false best) in
          let '(rows, e) := shortlist_merge better fuel runs [] in (outhdr :: rows, e)
      | Some k =>
          match asindices outhdr k with
          | Err e => ([outhdr], Some e)
          | Ok [] => ([outhdr], Some TypeErr)
          | Ok idx =>
              let better := fun (x best : row) =>
                              if reverse then Some (cgt (getkey idx x) (getkey idx best))
                              else Some (clt (getkey idx x) (getkey idx best)) in
              let '(rows, e) := shortlist_merge better fuel runs [] in (outhdr :: rows, e)
          end
      end
  end.

(* issorted(table, key, reverse, strict) — as repaired: rows are compared through comparable_itemgetter over the key
   indices (all header positions when key is None); a table without data rows is sorted *)
Definition issorted_model (key : option val) (reverse strict : bool) (t : table) : res bool :=
  let op := fun (c p : val) =>
    if reverse then (if strict then clt c p else cle c p) else (if strict then cgt c p else cge c p) in
  let '(hdr, rows) := match t with [] => ([], []) | h :: r => (h, r) end in
  match (match key with Some k => asindices (map hdr_text hdr) k | None => Ok (zrange (length hdr) 0) end) with
  | Err e => Err e
  | Ok idx =>
      match rows with
      | [] => Ok true
      | r0 :: rest =>
          match idx with
          | [] => Err TypeErr
          | _ =>
              (fix go (prevkey : val) (l : list row) : res bool :=
                 match l with
                 | [] => Ok true
                 | c :: t => if op (getkey idx c) prevkey then go (getkey idx c) t else Ok false
                 end) (getkey idx r0) rest
          end
      end
  end.
