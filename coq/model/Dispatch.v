(* Dispatch.v — one entry point `run op arg` for every executable model and spec.
   Used identically by the extracted runner (coq/extract) and by `Eval vm_compute` re-evaluation. *)
From Verif Require Import PyVal Rows Enc ComparableGen AsIndicesGen Order Sort SortSpec Dedup DedupSpec Basics SetOps SetSpec Joins Relational HashJoins Reductions GroupSpec Machines Selects Transforms Reshape Csv Tees TempFiles Db DbProgGen GenIR StreamGen.
Open Scope Z_scope.

Definition run_cmp (arg : val) : val :=
  match arg with
  | VSeq _ [a; b] =>
      vtuple [vbool (clt a b); vbool (ceq a b); vbool (cle a b); vbool (cgt a b); vbool (cge a b);
              vbool (vlt a b); vbool (veq a b)]
  | _ => bad_input
  end.

Definition enc_optbool (o : option bool) : val :=
  match o with Some b => vbool b | None => VNone end.

(* sort: (buffersize|None, reverse, key|None, table) *)
Definition run_sort (arg : val) : val :=
  match arg with
  | VSeq _ [bs; rev; key; t] =>
      match dec_opt dec_nat bs, dec_bool rev, dec_table t with
      | Some bs', Some rev', Some t' =>
          enc_gen (sort_model bs' rev' (match key with VNone => None | k => Some k end) t')
      | _, _, _ => bad_input
      end
  | _ => bad_input
  end.

(* sort_spec: (reverse, key|None, input table, output table) -> bool | None *)
Definition run_sort_spec (arg : val) : val :=
  match arg with
  | VSeq _ [rev; key; t; o] =>
      match dec_bool rev, dec_table t, dec_table o with
      | Some rev', Some t', Some o' =>
          enc_optbool (sort_spec_holds rev' (match key with VNone => None | k => Some k end) t' o')
      | _, _, _ => bad_input
      end
  | _ => bad_input
  end.

(* mergesort: (key|None, reverse, presorted, missing, header|None, buffersize|None, (tables...)) *)
Definition run_mergesort (arg : val) : val :=
  match arg with
  | VSeq _ [key; rev; pre; missing; header; bs; VSeq _ ts] =>
      match dec_bool rev, dec_bool pre, dec_opt dec_row header, dec_opt dec_nat bs, dec_all dec_table ts with
      | Some rev', Some pre', Some h', Some bs', Some ts' =>
          enc_gen (mergesort_model (match key with VNone => None | k => Some k end) rev' pre' missing h' bs' ts')
      | _, _, _, _, _ => bad_input
      end
  | _ => bad_input
  end.

(* issorted: (key|None, reverse, strict, table) *)
Definition run_issorted (arg : val) : val :=
  match arg with
  | VSeq _ [key; rev; strict; t] =>
      match dec_bool rev, dec_bool strict, dec_table t with
      | Some rev', Some s', Some t' =>
          enc_res vbool (issorted_model (match key with VNone => None | k => Some k end) rev' s' t')
      | _, _, _ => bad_input
      end
  | _ => bad_input
  end.

Definition dec_key (v : val) : option val := match v with VNone => None | k => Some k end.
Definition dec_optlist (v : val) : option (list val) := match v with VSeq _ l => Some l | VNone => None | x => Some [x] end.

(* dedup: (opname, key|None, presorted, buffersize|None, table, extra)
   extra: count field name for distinct_count; (missing, exclude, include) for conflicts *)
Definition run_dedup (arg : val) : val :=
  match arg with
  | VSeq _ [VStr opn; key; pre; bs; t; extra] =>
      match dec_bool pre, dec_opt dec_nat bs, dec_table t with
      | Some pre', Some bs', Some t' =>
          let op :=
            if zs_eqb opn "duplicates" then Some OpDuplicates
            else if zs_eqb opn "unique" then Some OpUnique
            else if zs_eqb opn "distinct" then Some OpDistinct
            else if zs_eqb opn "distinct_count" then Some (OpDistinctCount extra)
            else if zs_eqb opn "conflicts" then
              match extra with
              | VSeq _ [m; ex; inc] => Some (OpConflicts m (dec_optlist ex) (dec_optlist inc))
              | _ => None
              end
            else None in
          match op with
          | Some o => enc_gen (dedup_model o (dec_key key) pre' bs' t')
          | None => bad_input
          end
      | _, _, _ => bad_input
      end
  | _ => bad_input
  end.

Definition run_isunique (arg : val) : val :=
  match arg with
  | VSeq _ [field; t] => match dec_table t with Some t' => enc_res vbool (isunique_model field t') | None => bad_input end
  | _ => bad_input
  end.

(* dedup_spec: (key|None, table, duplicates-out, unique-out, distinct-out, distinct-count-out) *)
Definition run_dedup_spec (arg : val) : val :=
  match arg with
  | VSeq _ [key; t; d; u; di; dc] =>
      match dec_table t, dec_table d, dec_table u, dec_table di, dec_table dc with
      | Some t', Some d', Some u', Some di', Some dc' => enc_optbool (dedup_spec_holds (dec_key key) t' d' u' di' dc')
      | _, _, _, _, _ => bad_input
      end
  | _ => bad_input
  end.

(* setop: (opname, strict, presorted, buffersize|None, table a, table b) *)
Definition run_setop (arg : val) : val :=
  match arg with
  | VSeq _ [VStr opn; strict; pre; bs; ta; tb] =>
      match dec_bool strict, dec_bool pre, dec_opt dec_nat bs, dec_table ta, dec_table tb with
      | Some st, Some pre', Some bs', Some a, Some b =>
          if zs_eqb opn "complement" then enc_gen (setop_model (OpComplement st) pre' bs' a b)
          else if zs_eqb opn "intersection" then enc_gen (setop_model OpIntersection pre' bs' a b)
          else if zs_eqb opn "hashcomplement" then enc_gen (setop_model (OpHashComplement st) pre' bs' a b)
          else if zs_eqb opn "hashintersection" then enc_gen (setop_model OpHashIntersection pre' bs' a b)
          else if zs_eqb opn "recordcomplement" then enc_gen (recordcomplement_model st bs' a b)
          else bad_input
      | _, _, _, _, _ => bad_input
      end
  | _ => bad_input
  end.

(* setop_spec: (kind 0=complement 1=intersection, strict, a, b, out) ; reassemble: (a, comp, inter); subseq: (out, a) *)
Definition run_setop_spec (arg : val) : val :=
  match arg with
  | VSeq _ [kind; strict; ta; tb; out] =>
      match dec_nat kind, dec_bool strict, dec_table ta, dec_table tb, dec_table out with
      | Some k, Some st, Some a, Some b, Some o => enc_optbool (setop_spec_holds k st a b o)
      | _, _, _, _, _ => bad_input
      end
  | _ => bad_input
  end.
Definition run_reassemble (arg : val) : val :=
  match arg with
  | VSeq _ [ta; c; i] =>
      match dec_table ta, dec_table c, dec_table i with
      | Some a, Some c', Some i' => enc_optbool (reassemble_holds a c' i')
      | _, _, _ => bad_input
      end
  | _ => bad_input
  end.
Definition run_subseq (arg : val) : val :=
  match arg with
  | VSeq _ [o; a] =>
      match dec_table o, dec_table a with
      | Some o', Some a' => vbool (subseq (tl o') (tl a'))
      | _, _ => bad_input
      end
  | _ => bad_input
  end.
(* cut: (spec tuple, missing, table) *)
Definition run_cut (arg : val) : val :=
  match arg with
  | VSeq _ [VSeq _ spec; missing; t] =>
      match dec_table t with Some t' => enc_gen (cut_model spec missing t') | None => bad_input end
  | _ => bad_input
  end.

Definition dec_joinkind (n : list Z) : option joinkind :=
  if zs_eqb n "join" then Some JInner else if zs_eqb n "leftjoin" then Some JLeft
  else if zs_eqb n "rightjoin" then Some JRight else if zs_eqb n "outerjoin" then Some JOuter
  else if zs_eqb n "lookupjoin" then Some JLookup else None.

Definition hdr_of (t : table) : row := match t with h :: _ => h | [] => [] end.

(* join: (kind, key|None, lkey|None, rkey|None, presorted, missing, lprefix|None, rprefix|None, bs|None, left, right) *)
Definition run_join (arg : val) : val :=
  match arg with
  | VSeq _ [VStr kn; key; lkey; rkey; pre; missing; lp; rp; bs; l; r] =>
      match dec_bool pre, dec_opt dec_nat bs, dec_table l, dec_table r with
      | Some pre', Some bs', Some l', Some r' =>
          match keys_from_args (hdr_of l') (hdr_of r') (dec_key key) (dec_key lkey) (dec_key rkey) with
          | Err e => enc_exn e
          | Ok (lk, rk) =>
              if zs_eqb kn "antijoin" then enc_gen (antijoin_model lk rk pre' bs' l' r')
              else match dec_joinkind kn with
                   | Some k => enc_gen (join_model k lk rk pre' missing (dec_key lp) (dec_key rp) bs' l' r')
                   | None => bad_input
                   end
          end
      | _, _, _, _ => bad_input
      end
  | _ => bad_input
  end.

(* join_spec: (kind, key, lkey, rkey, missing, lprefix, rprefix, left, right, out) *)
Definition run_join_spec (arg : val) : val :=
  match arg with
  | VSeq _ [VStr kn; key; lkey; rkey; missing; lp; rp; l; r; o] =>
      match dec_table l, dec_table r, dec_table o with
      | Some l', Some r', Some o' =>
          match keys_from_args (hdr_of l') (hdr_of r') (dec_key key) (dec_key lkey) (dec_key rkey) with
          | Err e => VNone
          | Ok (lk, rk) =>
              if zs_eqb kn "antijoin" then enc_optbool (antijoin_spec_holds lk rk l' r' o')
              else match dec_joinkind kn with
                   | Some k => enc_optbool (join_spec_holds k lk rk missing (dec_key lp) (dec_key rp) l' r' o')
                   | None => bad_input
                   end
          end
      | _, _, _ => bad_input
      end
  | _ => bad_input
  end.

(* crossjoin: (prefix, missing, (tables...)) ; crossjoin_spec: (missing, (tables...), out) *)
Definition run_crossjoin (arg : val) : val :=
  match arg with
  | VSeq _ [prefix; missing; VSeq _ ts] =>
      match dec_bool prefix, dec_all dec_table ts with
      | Some p, Some ts' => enc_gen (crossjoin_model p missing ts')
      | _, _ => bad_input
      end
  | _ => bad_input
  end.
Definition run_crossjoin_spec (arg : val) : val :=
  match arg with
  | VSeq _ [missing; VSeq _ ts; o] =>
      match dec_all dec_table ts, dec_table o with
      | Some ts', Some o' => enc_optbool (crossjoin_spec_holds missing ts' o')
      | _, _ => bad_input
      end
  | _ => bad_input
  end.

(* hashjoin: (kind, key, lkey, rkey, missing, lprefix, rprefix, left, right) *)
Definition run_hashjoin (arg : val) : val :=
  match arg with
  | VSeq _ [VStr kn; key; lkey; rkey; missing; lp; rp; l; r] =>
      match dec_table l, dec_table r with
      | Some l', Some r' =>
          match keys_from_args (hdr_of l') (hdr_of r') (dec_key key) (dec_key lkey) (dec_key rkey) with
          | Err e => enc_exn e
          | Ok (lk, rk) =>
              if zs_eqb kn "antijoin" then enc_gen (hashantijoin_model lk rk l' r')
              else
                let k := if zs_eqb kn "join" then Some HJoin else if zs_eqb kn "leftjoin" then Some HLeft
                         else if zs_eqb kn "rightjoin" then Some HRight
                         else if zs_eqb kn "lookupjoin" then Some HLookup else None in
                match k with
                | Some k' => enc_gen (hashjoin_model k' lk rk missing (dec_key lp) (dec_key rp) l' r')
                | None => bad_input
                end
          end
      | _, _ => bad_input
      end
  | _ => bad_input
  end.

(* hash_spec: (kind, key, lkey, rkey, missing, left, right, out) *)
Definition run_hash_spec (arg : val) : val :=
  match arg with
  | VSeq _ [VStr kn; key; lkey; rkey; missing; l; r; o] =>
      match dec_table l, dec_table r, dec_table o with
      | Some l', Some r', Some o' =>
          match keys_from_args (hdr_of l') (hdr_of r') (dec_key key) (dec_key lkey) (dec_key rkey) with
          | Err e => VNone
          | Ok (lk, rk) =>
              if zs_eqb kn "antijoin" then enc_optbool (hashanti_spec_holds lk rk l' r' o')
              else
                let k := if zs_eqb kn "join" then 0%nat else if zs_eqb kn "leftjoin" then 1%nat
                         else if zs_eqb kn "rightjoin" then 2%nat else 3%nat in
                enc_optbool (hash_spec_holds k lk rk missing l' r' o')
          end
      | _, _, _ => bad_input
      end
  | _ => bad_input
  end.

Definition run_same_table (arg : val) : val :=
  match arg with
  | VSeq _ [a; b] => match dec_table a, dec_table b with
                     | Some a', Some b' => enc_optbool (same_table a' b')
                     | _, _ => bad_input
                     end
  | _ => bad_input
  end.

(* lookup: (one, strict, key, value|None, table) -> list of (key, value) pairs in insertion order *)
Definition run_lookup (arg : val) : val :=
  match arg with
  | VSeq _ [one; strict; key; value; t] =>
      match dec_bool one, dec_bool strict, dec_table t with
      | Some one', Some st, Some t' =>
          if one' then enc_res (fun d => vlist (map (fun kv => vtuple [fst kv; snd kv]) d))
                               (lookupone_model st key (dec_key value) t')
          else enc_res (fun d => vlist (map (fun kv => vtuple [fst kv; vlist (snd kv)]) d))
                       (lookup_model key (dec_key value) t')
      | _, _, _ => bad_input
      end
  | _ => bad_input
  end.

Definition dec_fn (v : val) : option Z := fn_id v.
Definition dec_pairs (v : val) : option (list (val * val)) :=
  match v with
  | VSeq _ l => dec_all (fun x => match x with VSeq _ [a; b] => Some (a, b) | _ => None end) l
  | _ => None
  end.

(* reduce: (opname, presorted, bs|None, table, args...) *)
Definition run_reduce (arg : val) : val :=
  match arg with
  | VSeq _ (VStr opn :: pre :: bs :: t :: args) =>
      match dec_bool pre, dec_opt dec_nat bs, dec_table t with
      | Some pre', Some bs', Some t' =>
          if zs_eqb opn "aggregate_simple" then
            match args with
            | [key; agg; value; field] =>
                match dec_fn agg with
                | Some f => enc_gen (simple_aggregate_model key f (dec_key value) field pre' bs' t')
                | None => bad_input
                end
            | _ => bad_input
            end
          else if zs_eqb opn "aggregate_multi" then
            match args with
            | [key; aggs] => match dec_pairs aggs with
                             | Some a => enc_gen (multi_aggregate_model key a pre' bs' t')
                             | None => bad_input
                             end
            | _ => bad_input
            end
          else if zs_eqb opn "rowreduce" then
            match args with
            | [key; red; header] =>
                match dec_fn red, dec_opt dec_row header with
                | Some f, Some h => enc_gen (rowreduce_model key f h pre' bs' t')
                | _, _ => bad_input
                end
            | _ => bad_input
            end
          else if zs_eqb opn "groupselect" then
            match args with
            | [which; key; value] =>
                match dec_Z which with
                | Some w => enc_gen (groupselect_model w key value pre' bs' t')
                | None => bad_input
                end
            | _ => bad_input
            end
          else if zs_eqb opn "mergeduplicates" then
            match args with
            | [key; missing] => enc_gen (mergeduplicates_model key missing pre' bs' t')
            | _ => bad_input
            end
          else if zs_eqb opn "fold" then
            match args with
            | [key; f; value] =>
                match dec_fn f with
                | Some fid => enc_gen (fold_model key fid (dec_key value) pre' bs' t')
                | None => bad_input
                end
            | _ => bad_input
            end
          else if zs_eqb opn "valuecounts" then
            match args with
            | [VSeq _ fields; missing] => enc_gen (valuecounts_model fields missing t')
            | _ => bad_input
            end
          else bad_input
      | _, _, _ => bad_input
      end
  | _ => bad_input
  end.

(* group_spec: (kind, table, out, args...) *)
Definition run_group_spec (arg : val) : val :=
  match arg with
  | VSeq _ (VStr kind :: t :: o :: args) =>
      match dec_table t, dec_table o with
      | Some t', Some o' =>
          if zs_eqb kind "aggregate" then
            match args with
            | [key; agg; value] => match dec_fn agg with
                                   | Some f => enc_optbool (aggregate_spec_holds key f (dec_key value) t' o')
                                   | None => bad_input
                                   end
            | _ => bad_input
            end
          else if zs_eqb kind "counts_sum" then enc_optbool (counts_sum_holds t' o')
          else if zs_eqb kind "groupselect" then
            match args with
            | [which; key; value] => match dec_Z which with
                                     | Some w => enc_optbool (groupselect_spec_holds w key value t' o')
                                     | None => bad_input
                                     end
            | _ => bad_input
            end
          else bad_input
      | _, _ => bad_input
      end
  | _ => bad_input
  end.

(* ---- machines ------------------------------------------------------------------------------------------- *)
Definition enc_out (o : out) : val :=
  match o with
  | ORow r => vtuple [vstr "r"; vtuple r]
  | OStop => vtuple [vstr "s"]
  | ORaise e => vtuple [vstr "e"; enc_exn e]
  end.
Definition enc_trace (t : trace) : val := vlist (map (fun p => vtuple [vnat (fst p); enc_out (snd p)]) t).

Definition dec_sop (v : val) : option sop :=
  match v with
  | VSeq _ [a] => match dec_Z a with Some 0 => Some NewIter | _ => None end
  | VSeq _ [a; k] => match dec_Z a, dec_nat k with
                     | Some 1, Some k' => Some (Next k')
                     | Some 2, Some k' => Some (Close k')
                     | _, _ => None
                     end
  | _ => None
  end.
Definition dec_sops (v : val) : option (list sop) := match v with VSeq _ l => dec_all dec_sop l | _ => None end.

(* sv_run: (key|None, reverse, bs|None, cache, table, ops) *)
Definition run_sv_run (arg : val) : val :=
  match arg with
  | VSeq _ [key; rev; bs; cache; t; ops] =>
      match dec_bool rev, dec_opt dec_nat bs, dec_bool cache, dec_table t, dec_sops ops with
      | Some rev', Some bs', Some cache', Some t', Some ops' =>
          let c := {| sv_key := dec_key key; sv_reverse := rev'; sv_bs := bs'; sv_cache := cache' |} in
          let '(_, _, tr) := Machines.mrun (sv_machine c) ops' (sv_init t') [] [] in enc_trace tr
      | _, _, _, _, _ => bad_input
      end
  | _ => bad_input
  end.

(* cv_run: (n|None, table, ops) *)
Definition run_cv_run (arg : val) : val :=
  match arg with
  | VSeq _ [n; t; ops] =>
      match dec_opt dec_nat n, dec_table t, dec_sops ops with
      | Some n', Some t', Some ops' =>
          let '(s, _, tr) := Machines.mrun (cv_machine n') ops' (cv_init t') [] [] in
          vtuple [enc_trace tr; vlist (map vtuple (cv_cache s))]
      | _, _, _ => bad_input
      end
  | _ => bad_input
  end.

(* dg_run: (header, rows, ops) *)
Definition run_dg_run (arg : val) : val :=
  match arg with
  | VSeq _ [hdr; rows; ops] =>
      match dec_row hdr, dec_table rows, dec_sops ops with
      | Some h, Some r, Some ops' =>
          let '(_, _, tr) := Machines.mrun dg_machine ops' (dg_init h r) [] [] in enc_trace tr
      | _, _, _ => bad_input
      end
  | _ => bad_input
  end.

Definition dec_out (v : val) : option out :=
  match v with
  | VSeq _ [VStr tag; VSeq _ r] => if zs_eqb tag "r" then Some (ORow r) else if zs_eqb tag "e" then Some (ORaise OtherErr) else None
  | VSeq _ [VStr tag] => if zs_eqb tag "s" then Some OStop else if zs_eqb tag "e" then Some (ORaise OtherErr) else None
  | _ => None
  end.

(* stateless_run: (solo outputs, ops): every iterator is a private cursor into the solo pass *)
Definition run_stateless_run (arg : val) : val :=
  match arg with
  | VSeq _ [VSeq _ outs; ops] =>
      match dec_all dec_out outs, dec_sops ops with
      | Some os, Some ops' =>
          let '(_, _, tr) := Machines.mrun (stateless_machine os) ops' tt [] [] in
          vlist (map (fun p => vtuple [vnat (fst p); match snd p with
                                                      | ORaise _ => vtuple [vstr "e"]
                                                      | o => enc_out o end]) tr)
      | _, _ => bad_input
      end
  | _ => bad_input
  end.

(* sv_history: (key|None, reverse, bs|None, cache, table, hops)  hop = (0, table) edit | (1,) pass *)
Definition dec_hop (v : val) : option hop :=
  match v with
  | VSeq _ [a; t] => match dec_Z a, dec_table t with Some 0, Some t' => Some (HEdit t') | _, _ => None end
  | VSeq _ [a] => match dec_Z a with Some 1 => Some HPass | _ => None end
  | _ => None
  end.
Definition run_sv_history (arg : val) : val :=
  match arg with
  | VSeq _ [key; rev; bs; cache; t; VSeq _ hops] =>
      match dec_bool rev, dec_opt dec_nat bs, dec_bool cache, dec_table t, dec_all dec_hop hops with
      | Some rev', Some bs', Some cache', Some t', Some hops' =>
          let c := {| sv_key := dec_key key; sv_reverse := rev'; sv_bs := bs'; sv_cache := cache' |} in
          vlist (map (fun p => vtuple [vlist (map enc_out (fst p)); vint (snd p)])
                     (sv_history c 1000%nat hops' (sv_init t')))
      | _, _, _, _, _ => bad_input
      end
  | _ => bad_input
  end.

(* ---- selections ------------------------------------------------------------------------------------------ *)
Definition dec_vpred (v : val) : option vpred :=
  match v with
  | VSeq _ (VStr tag :: args) =>
      match args with
      | [] => if zs_eqb tag "isnone" then Some PIsNone else if zs_eqb tag "isnotnone" then Some PIsNotNone
              else if zs_eqb tag "true" then Some PTrue else if zs_eqb tag "false" then Some PFalse else None
      | [c] => if zs_eqb tag "eq" then Some (PEq c) else if zs_eqb tag "ne" then Some (PNe c)
               else if zs_eqb tag "lt" then Some (PLt c) else if zs_eqb tag "le" then Some (PLe c)
               else if zs_eqb tag "gt" then Some (PGt c) else if zs_eqb tag "ge" then Some (PGe c)
               else if zs_eqb tag "in" then Some (PIn c) else if zs_eqb tag "notin" then Some (PNotIn c)
               else if zs_eqb tag "contains" then Some (PContains c)
               else if zs_eqb tag "isinstance" then match c with VStr t => Some (PIsInstance t) | _ => None end
               else if zs_eqb tag "user" then match dec_Z c with Some i => Some (PUser i) | None => None end
               else None
      | [a; b] => if zs_eqb tag "rangeopenleft" then Some (PRangeOpenLeft a b)
                  else if zs_eqb tag "rangeopenright" then Some (PRangeOpenRight a b)
                  else if zs_eqb tag "rangeopen" then Some (PRangeOpen a b)
                  else if zs_eqb tag "rangeclosed" then Some (PRangeClosed a b) else None
      | _ => None
      end
  | _ => None
  end.

(* select: (form "field"|"row", field, pred, complement, missing, table) *)
Definition run_select (arg : val) : val :=
  match arg with
  | VSeq _ [VStr form; field; pred; compl; missing; t] =>
      match dec_bool compl, dec_table t with
      | Some c, Some t' =>
          if zs_eqb form "field" then
            match dec_vpred pred with
            | Some p => enc_gen (fieldselect_model field p c missing t')
            | None => bad_input
            end
          else
            match pred with
            | VSeq _ [VStr tag; n] =>
                if zs_eqb tag "len" then match dec_Z n with
                                         | Some n' => enc_gen (rowselect_model (RLen n') c missing t')
                                         | None => bad_input end
                else bad_input
            | VSeq _ [VStr tag; f; vp] =>
                if zs_eqb tag "field" then match dec_vpred vp with
                                           | Some p => enc_gen (rowselect_model (RField f p) c missing t')
                                           | None => bad_input end
                else bad_input
            | _ => bad_input
            end
      | _, _ => bad_input
      end
  | _ => bad_input
  end.

(* rowslice: ((args...), table) ; tail / skip: (n, table) ; search: (pattern, field|None, complement, table) *)
Definition run_rowslice (arg : val) : val :=
  match arg with
  | VSeq _ [VSeq _ args; t] =>
      match dec_all (dec_opt dec_Z) args, dec_table t with
      | Some a, Some t' => enc_gen (rowslice_model a t')
      | _, _ => bad_input
      end
  | _ => bad_input
  end.
Definition run_tail (arg : val) : val :=
  match arg with
  | VSeq _ [n; t] => match dec_Z n, dec_table t with Some n', Some t' => enc_gen (tail_model n' t') | _, _ => bad_input end
  | _ => bad_input
  end.
Definition run_skip (arg : val) : val :=
  match arg with
  | VSeq _ [n; t] => match dec_Z n, dec_table t with Some n', Some t' => enc_gen (skip_model n' t') | _, _ => bad_input end
  | _ => bad_input
  end.
Definition run_search (arg : val) : val :=
  match arg with
  | VSeq _ [VStr pat; field; compl; t] =>
      match dec_bool compl, dec_table t with
      | Some c, Some t' => enc_gen (search_model pat (dec_key field) c t')
      | _, _ => bad_input
      end
  | _ => bad_input
  end.

(* ---- row / field transforms (C12, C19) ---------------------------------------------------------------------- *)
Definition dec_fieldvalue (v : val) : option fieldvalue :=
  match v with
  | VSeq _ [VStr tag; x] => if zs_eqb tag "const" then Some (FConst x)
                            else if zs_eqb tag "fn" then match dec_Z x with Some i => Some (FFn i) | None => None end
                            else None
  | _ => None
  end.
Definition dec_conv (v : val) : option conv :=
  match v with
  | VNone => Some CNone
  | VSeq _ [VStr tag; x] => if zs_eqb tag "fn" then match dec_Z x with Some i => Some (CFn i) | None => None end
                            else if zs_eqb tag "dict" then match dec_pairs x with Some d => Some (CDict d) | None => None end
                            else None
  | _ => None
  end.
Definition dec_policy (v : val) : option policy :=
  match v with
  | VStr s => if zs_eqb s "inline" then Some PolInline else None
  | _ => match dec_bool v with Some true => Some PolTrue | Some false => Some PolFalse | None => None end
  end.
Definition dec_rpred (v : val) : option rpred :=
  match v with
  | VSeq _ [VStr tag; n] => if zs_eqb tag "len" then match dec_Z n with Some n' => Some (RLen n') | None => None end else None
  | VSeq _ [VStr tag; f; vp] => if zs_eqb tag "field" then match dec_vpred vp with Some p => Some (RField f p) | None => None end
                                else None
  | _ => None
  end.
Definition dec_mapping (v : val) : option mapping :=
  match v with
  | VSeq _ [VStr tag; f] => if zs_eqb tag "field" then Some (MField f)
                            else if zs_eqb tag "rowfn" then match dec_Z f with Some i => Some (MRowFn i) | None => None end
                            else None
  | VSeq _ [VStr tag; f; c] => if zs_eqb tag "fieldconv" then match dec_conv c with Some c' => Some (MFieldConv f c') | None => None end
                               else None
  | _ => None
  end.
Definition dec_tables (v : val) : option (list table) := match v with VSeq _ l => dec_all dec_table l | _ => None end.

Definition opt_gen (o : option gen) : val := match o with Some g => enc_gen g | None => bad_input end.

Definition run_transform (arg : val) : val :=
  match arg with
  | VSeq _ (VStr nm :: args) =>
      opt_gen
      (match args with
       | [a; b; t] =>
           if zs_eqb nm "cut" then match a with VSeq _ spec => option_map (cut_model spec b) (dec_table t) | _ => None end
           else if zs_eqb nm "cutout" then match a with VSeq _ spec => option_map (cutout_model spec b) (dec_table t) | _ => None end
           else if zs_eqb nm "filldown" then match a with VSeq _ spec => option_map (filldown_model spec b) (dec_table t) | _ => None end
           else if zs_eqb nm "movefield" then match dec_Z b, dec_table t with
                                         | Some i, Some t' => Some (movefield_model a i VNone t') | _, _ => None end
           else if zs_eqb nm "cat" then match dec_opt dec_row b, dec_tables t with
                                        | Some h, Some ts => Some (cat_model a h ts) | _, _ => None end
           else if zs_eqb nm "rename" then match dec_pairs a, dec_bool b, dec_table t with
                                           | Some sp, Some st, Some t' => Some (rename_model sp st t') | _, _, _ => None end
           else if zs_eqb nm "sortheader" then match dec_bool a, dec_table t with
                                               | Some r, Some t' => Some (sortheader_model r b t') | _, _ => None end
           else None
       | [a; t] =>
           if zs_eqb nm "annex" then option_map (annex_model a) (dec_tables t)
           else if zs_eqb nm "setheader" then match dec_row a, dec_table t with
                                              | Some h, Some t' => Some (setheader_model h t') | _, _ => None end
           else if zs_eqb nm "extendheader" then match dec_row a, dec_table t with
                                                 | Some h, Some t' => Some (extendheader_model h t') | _, _ => None end
           else if zs_eqb nm "pushheader" then match dec_row a, dec_table t with
                                               | Some h, Some t' => Some (pushheader_model h t') | _, _ => None end
           else if zs_eqb nm "prefixheader" then option_map (prefixheader_model a false) (dec_table t)
           else if zs_eqb nm "suffixheader" then option_map (prefixheader_model a true) (dec_table t)
           else if zs_eqb nm "fillright" then option_map (fillright_model a) (dec_table t)
           else if zs_eqb nm "fillleft" then option_map (fillleft_model a) (dec_table t)
           else None
       | [a; b; c; t] =>
           if zs_eqb nm "stack" then match dec_bool b, dec_bool c, dec_tables t with
                                     | Some tr, Some pd, Some ts => Some (stack_model a tr pd ts) | _, _, _ => None end
           else if zs_eqb nm "addrownumbers" then match dec_Z a, dec_Z b, dec_table t with
                                                  | Some st, Some sp, Some t' => Some (addrownumbers_model st sp c t')
                                                  | _, _, _ => None end
           else if zs_eqb nm "fieldmap" then
             match a, dec_policy b, dec_table t with
             | VSeq _ ms, Some pol, Some t' =>
                 match dec_all (fun x => match x with
                                         | VSeq _ [o; m] => match dec_mapping m with Some m' => Some (o, m') | None => None end
                                         | _ => None end) ms with
                 | Some ms' => Some (fieldmap_model ms' pol c t')
                 | None => None
                 end
             | _, _, _ => None
             end
           else if zs_eqb nm "rowmap" then match dec_Z a, dec_row b, dec_policy c, dec_table t with
                                           | Some i, Some h, Some pol, Some t' => Some (rowmap_model i h pol t')
                                           | _, _, _, _ => None end
           else if zs_eqb nm "rowmapmany" then match dec_Z a, dec_row b, dec_policy c, dec_table t with
                                               | Some i, Some h, Some pol, Some t' => Some (rowmapmany_model i h pol t')
                                               | _, _, _, _ => None end
           else None
       | [a; b; c; d; t] =>
           if zs_eqb nm "addfield" then match dec_fieldvalue b, dec_opt dec_Z c, dec_table t with
                                        | Some fv, Some ix, Some t' => Some (addfield_model a fv ix d t')
                                        | _, _, _ => None end
           else if zs_eqb nm "addcolumn" then match b, dec_opt dec_Z c, dec_table t with
                                              | VSeq _ col, Some ix, Some t' => Some (addcolumn_model a col ix d t')
                                              | _, _, _ => None end
           else if zs_eqb nm "convert" then
             match a, dec_policy b, dec_opt dec_rpred d, dec_table t with
             | VSeq _ cs, Some pol, Some wh, Some t' =>
                 match dec_all (fun x => match x with
                                         | VSeq _ [k; cv] => match dec_conv cv with Some c' => Some (k, c') | None => None end
                                         | _ => None end) cs with
                 | Some cs' => Some (convert_model cs' pol c wh t')
                 | None => None
                 end
             | _, _, _, _ => None
             end
           else None
       | _ => None
       end)
  | _ => bad_input
  end.

(* addfields: (defs, missing, table)  def = (name, fieldvalue) | (name, fieldvalue, index) *)
Definition run_addfields (arg : val) : val :=
  match arg with
  | VSeq _ [VSeq _ defs; missing; t] =>
      match dec_all (fun x => match x with
                              | VSeq _ [n; fv] => match dec_fieldvalue fv with Some f => Some (n, f, None) | None => None end
                              | VSeq _ [n; fv; i] => match dec_fieldvalue fv, dec_Z i with
                                                     | Some f, Some i' => Some (n, f, Some i') | _, _ => None end
                              | _ => None end) defs, dec_table t with
      | Some ds, Some t' => enc_gen (addfields_model ds missing t')
      | _, _ => bad_input
      end
  | _ => bad_input
  end.

(* ---- reshape (C14) ----------------------------------------------------------------------------------------------- *)
Definition enc_dict (d : list (val * val)) : val := vlist (map (fun kv => vtuple [fst kv; snd kv]) d).
Definition dec_dicts (v : val) : option (list (list (val * val))) :=
  match v with VSeq _ l => dec_all dec_pairs l | _ => None end.

Definition run_reshape (arg : val) : val :=
  match arg with
  | VSeq _ (VStr nm :: args) =>
      match args with
      | [t] =>
          if zs_eqb nm "transpose" then match dec_table t with Some t' => enc_gen (transpose_model t') | None => bad_input end
          else if zs_eqb nm "flatten" then match dec_table t with Some t' => vlist (flatten_model t') | None => bad_input end
          else bad_input
      | [a; t] =>
          if zs_eqb nm "dicts" then match dec_table t with Some t' => vlist (map enc_dict (dicts_model a t')) | None => bad_input end
          else if zs_eqb nm "columns" then
            match dec_table t with
            | Some t' => vlist (map (fun fc => vtuple [fst fc; vlist (snd fc)]) (columns_model a t'))
            | None => bad_input end
          else bad_input
      | [a; b; c] =>
          if zs_eqb nm "unflatten" then match dec_nat a, c with
                                        | Some p, VSeq _ vs => enc_gen (unflatten_model p b vs) | _, _ => bad_input end
          else if zs_eqb nm "fromdicts" then match dec_nat a, dec_dicts c with
                                             | Some s, Some ds => enc_table (fromdicts_model s b ds) | _, _ => bad_input end
          else if zs_eqb nm "fromcolumns" then match dec_row a, c with
                                               | Some h, VSeq _ cols => match dec_all dec_seq cols with
                                                                        | Some cs => enc_table (fromcolumns_model h b cs)
                                                                        | None => bad_input end
                                               | _, _ => bad_input end
          else if zs_eqb nm "splitdown" then match dec_Z b, dec_table c with
                                             | Some sep, Some t' => enc_gen (splitdown_model a sep t') | _, _ => bad_input end
          else bad_input
      | [a; b; c; d; t] =>
          if zs_eqb nm "melt" then match dec_table t with
                                   | Some t' => enc_gen (melt_model (dec_key a) (dec_key b) c d t') | None => bad_input end
          else if zs_eqb nm "unpack" then match b, dec_bool c, dec_table t with
                                          | VSeq _ nf, Some inc, Some t' => enc_gen (unpack_model a nf inc d t')
                                          | _, _, _ => bad_input end
          else bad_input
      | [key; vf; valf; ss; missing; bs; t] =>
          if zs_eqb nm "recast" then match dec_nat ss, dec_opt dec_nat bs, dec_table t with
                                     | Some s, Some bs', Some t' => enc_gen (recast_model (dec_key key) vf valf s missing bs' t')
                                     | _, _, _ => bad_input end
          else bad_input
      | [f1; f2; f3; agg; missing; pre; bs; t] =>
          if zs_eqb nm "pivot" then match dec_fn agg, dec_bool pre, dec_opt dec_nat bs, dec_table t with
                                    | Some a, Some p, Some bs', Some t' => enc_gen (pivot_model f1 f2 f3 a missing p bs' t')
                                    | _, _, _, _ => bad_input end
          else bad_input
      | _ => bad_input
      end
  | _ => bad_input
  end.

(* ---- csv (C15) ------------------------------------------------------------------------------------------------------ *)
Definition dec_dialect (dl qc q : val) : option dialect :=
  match dl, qc, dec_Z q with
  | VStr [a], VStr [b], Some n =>
      let qm := if n =? 0 then Some QMinimal else if n =? 1 then Some QAll else if n =? 2 then Some QNonNumeric
                else if n =? 3 then Some QNone else None in
      match qm with Some m => Some {| d_delim := a; d_quote := b; d_quoting := m |} | None => None end
  | _, _, _ => None
  end.

(* a cell as the writer sees it: (text of str(cell), is it a number) ; None -> empty text *)
Definition csv_cell (v : val) : option (list Z * bool) :=
  match v with
  | VNone => Some ([], false)
  | VStr s => Some (s, false)
  | VNum KBool _ => match py_str v with Some s => Some (s, true) | None => None end
  | VNum KInt _ => match py_str v with Some s => Some (s, true) | None => None end
  | _ => None
  end.

(* csv_write: (delimiter, quotechar, quoting 0..3, rows) -> text | ("!err","Error") *)
Definition run_csv_write (arg : val) : val :=
  match arg with
  | VSeq _ [dl; qc; q; VSeq _ rows] =>
      match dec_dialect dl qc q, dec_all (fun r => match r with VSeq _ cells => all_some (map csv_cell cells) | _ => None end) rows with
      | Some d, Some rs => match write_rows d rs with
                           | Some txt => VStr txt
                           | None => vtuple [vstr "!err"; vstr "Error"]
                           end
      | _, _ => bad_input
      end
  | _ => bad_input
  end.

(* csv_parse: (delimiter, quotechar, quoting, text) -> list of rows of text | ("!err","Error") *)
Definition run_csv_parse (arg : val) : val :=
  match arg with
  | VSeq _ [dl; qc; q; VStr txt] =>
      match dec_dialect dl qc q with
      | Some d => match parse d txt with
                  | Some rows => vlist (map (fun r => vtuple (map VStr r)) rows)
                  | None => vtuple [vstr "!err"; vstr "Error"]
                  end
      | None => bad_input
      end
  | _ => bad_input
  end.

(* ---- pass-through views (C16) ---------------------------------------------------------------------------------------- *)
Definition dec_chunk (v : val) : option (list Z) :=
  match v with VStr s => Some s | VBytes s => Some s | _ => None end.
Definition dec_item (v : val) : option (val * list Z) :=
  match v with VSeq _ [r; c] => match dec_chunk c with Some x => Some (r, x) | None => None end | _ => None end.
Definition csv_item (d : dialect) (v : val) : option (val * list Z) :=
  match v with
  | VSeq _ cells => match all_some (map csv_cell cells) with
                    | Some cs => match write_row d cs with Some txt => Some (v, txt) | None => None end
                    | None => None
                    end
  | _ => None
  end.
Definition enc_consumed (r : list val * list Z * list Z * bool) (complete : list Z) : val :=
  let '(ys, w, m, fin) := r in vtuple [vlist ys; VStr w; vlist (map vint m); vbool fin; VStr complete].

(* tee: (format, configuration, source, k) -> (rows obtained by k calls of next, sink after abandoning the iterator,
   progress messages, exhausted?, what the corresponding to* function writes) *)
Definition run_tee (arg : val) : val :=
  match arg with
  | VSeq _ [VStr fmt; cfg; VSeq _ src; kv] =>
      match dec_nat kv with
      | None => bad_input
      | Some k =>
          if zs_eqb fmt "csv" then
            match cfg with
            | VSeq _ [dl; qc; q; whv] =>
                match dec_dialect dl qc q, dec_bool whv with
                | Some d, Some wh =>
                    match dec_all (csv_item d) src with
                    | Some items => enc_consumed (consume k (tee_plain wh items)) (to_csv wh items)
                    | None => bad_input
                    end
                | _, _ => bad_input
                end
            | _ => bad_input
            end
          else if zs_eqb fmt "pickle" then
            match dec_bool cfg, dec_all dec_item src with
            | Some wh, Some items => enc_consumed (consume k (tee_plain wh items)) (to_pickle wh items)
            | _, _ => bad_input
            end
          else if zs_eqb fmt "text" then
            match cfg, dec_all dec_item src with
            | VSeq _ [p; e], Some items =>
                match dec_opt dec_chunk p, dec_opt dec_chunk e with
                | Some p', Some e' => enc_consumed (consume k (tee_text p' e' items)) (to_text p' e' items)
                | _, _ => bad_input
                end
            | _, _ => bad_input
            end
          else if zs_eqb fmt "html" then
            match cfg, dec_all dec_item src with
            | VSeq _ [b; e], Some items =>
                match dec_chunk b, dec_chunk e with
                | Some b', Some e' => enc_consumed (consume k (tee_html b' e' items)) (to_html b' e' items)
                | _, _ => bad_input
                end
            | _, _ => bad_input
            end
          else if zs_eqb fmt "progress" then
            match dec_Z cfg with
            | Some bs => if bs <=? 0 then bad_input else enc_consumed (consume k (progress_script bs src)) []
            | None => bad_input
            end
          else if zs_eqb fmt "pass" then enc_consumed (consume k (passthrough_script src)) []
          else bad_input
      end
  | _ => bad_input
  end.

(* ---- temporary files (C18) -------------------------------------------------------------------------------------------- *)
Definition dec_top (v : val) : option top :=
  match v with
  | VSeq _ [a] => match dec_Z a with Some 0 => Some TNew | Some 3 => Some TDropView | _ => None end
  | VSeq _ [a; k] => match dec_Z a, dec_nat k with
                     | Some 1, Some k' => Some (TNext k')
                     | Some 2, Some k' => Some (TDropIter k')
                     | _, _ => None
                     end
  | _ => None
  end.
Definition enc_tout (o : option tout) : val :=
  match o with
  | None => VNone
  | Some TRow => vstr "r" | Some TStop => vstr "s" | Some TRaise => vstr "e" | Some TMissing => vstr "m"
  end.

(* tf_run: (n, buffersize|None, cache, fail|None, ops) -> ([(what next() returned | None, files on disk)], all released?) *)
Definition run_tf_run (arg : val) : val :=
  match arg with
  | VSeq _ [nv; bsv; cachev; failv; VSeq _ opsv] =>
      match dec_nat nv, dec_opt dec_nat bsv, dec_bool cachev, dec_opt dec_nat failv, dec_all dec_top opsv with
      | Some n, Some bs, Some cache, Some fail, Some ops =>
          let c := {| tf_n := n; tf_bs := bs; tf_cache := cache; tf_fail := fail |} in
          let '(tr, sf) := tf_run c ops tf_init in
          vtuple [vlist (map (fun e => vtuple [enc_tout (fst e); vnat (snd e * chunks_per_group c)]) tr);
                  vbool (all_released sf)]
      | _, _, _, _, _ => bad_input
      end
  | _ => bad_input
  end.

(* df_run: [(op, did this next() find the generator exhausted)] -> [does the spill file exist after the operation] *)
Definition run_df_run (arg : val) : val :=
  match arg with
  | VSeq _ opsv =>
      match dec_all (fun v => match v with
                              | VSeq _ [o; l] => match dec_top o, dec_bool l with Some o', Some l' => Some (o', l') | _, _ => None end
                              | _ => None
                              end) opsv with
      | Some ops => let '(tr, sf) := df_run ops df_init in vtuple [vlist (map vbool tr); vbool (df_released sf)]
      | None => bad_input
      end
  | _ => bad_input
  end.

(* ---- database loads (C17) --------------------------------------------------------------------------------------------- *)
(* db_load: (handle kind, todb?, commit, header, rows, fail|None, prior contents)
   -> (raised, what a fresh connection sees, what the loading connection sees | None when it was closed) *)
Definition run_db_load (arg : val) : val :=
  match arg with
  | VSeq _ [VStr kind; todbv; cmv; hdrv; rowsv; failv; priorv] =>
      match dec_bool todbv, dec_bool cmv, dec_row hdrv, dec_table rowsv, dec_opt dec_nat failv, dec_table priorv with
      | Some is_todb, Some cm, Some hdr, Some rows, Some fail, Some prior =>
          let src := {| s_hdr := hdr; s_rows := rows; s_fail := fail |} in
          let s := {| committed := prior; pending := None |} in
          let tr := if is_todb then todb_truncate else appenddb_truncate in
          let go := fun (closes : bool) (p : list action) =>
                      let '(s', raised) := run_prog closes tr cm p src s in
                      vtuple [vbool raised; enc_table (committed s');
                              if closes then VNone else enc_table (visible s')] in
          if zs_eqb kind "filename" then go filename_closes_in_finally prog_connection
          else if zs_eqb kind "connection" then go false prog_connection
          else if zs_eqb kind "cursor" then go false prog_cursor
          else if zs_eqb kind "mkcurs" then go false prog_mkcurs
          else bad_input
      | _, _, _, _, _, _ => bad_input
      end
  | _ => bad_input
  end.

(* ---- streaming skeletons (C02) ---------------------------------------------------------------------------------------- *)
(* stream_info: qualified name of a generator function / constructor -> (known, wf_map, wf_filter, slack, header_only, pull_free) *)
Definition run_stream_info (arg : val) : val :=
  match arg with
  | VSeq _ [VStr kind; VStr name] =>
      let tbl := if zs_eqb kind "ctor" then ctor_skeletons else gen_skeletons in
      match find (fun p => zl_eqb name (zs (fst p))) tbl with
      | Some (_, s) => vtuple [vbool true; vbool (wf_map s); vbool (wf_filter s); vnat (slack s); vbool (header_only s);
                               vbool (pull_free s)]
      | None => vtuple [vbool false]
      end
  | _ => bad_input
  end.

(* stream_judge: (qualified generator name, k, rows pulled from the sources when the k-th row was delivered) -> is that
   within the bound the theorem gives for the regenerated skeleton?  (true when the skeleton is not in streaming normal
   form: then the theorem says nothing) *)
Definition run_stream_judge (arg : val) : val :=
  match arg with
  | VSeq _ [VStr name; kv; pv] =>
      match dec_nat kv, dec_nat pv with
      | Some k, Some p =>
          match find (fun q => zl_eqb name (zs (fst q))) gen_skeletons with
          | Some (_, s) => vbool (if wf_map s then Nat.leb p (Nat.pred k + slack s) else true)
          | None => vbool true
          end
      | _, _ => bad_input
      end
  | _ => bad_input
  end.

Definition run (op : list Z) (arg : val) : val :=
  if zs_eqb op "cmp" then run_cmp arg
  else if zs_eqb op "sort" then run_sort arg
  else if zs_eqb op "sort_spec" then run_sort_spec arg
  else if zs_eqb op "mergesort" then run_mergesort arg
  else if zs_eqb op "issorted" then run_issorted arg
  else if zs_eqb op "dedup" then run_dedup arg
  else if zs_eqb op "isunique" then run_isunique arg
  else if zs_eqb op "dedup_spec" then run_dedup_spec arg
  else if zs_eqb op "setop" then run_setop arg
  else if zs_eqb op "setop_spec" then run_setop_spec arg
  else if zs_eqb op "reassemble" then run_reassemble arg
  else if zs_eqb op "subseq" then run_subseq arg
  else if zs_eqb op "cut" then run_cut arg
  else if zs_eqb op "join" then run_join arg
  else if zs_eqb op "join_spec" then run_join_spec arg
  else if zs_eqb op "crossjoin" then run_crossjoin arg
  else if zs_eqb op "crossjoin_spec" then run_crossjoin_spec arg
  else if zs_eqb op "hashjoin" then run_hashjoin arg
  else if zs_eqb op "hash_spec" then run_hash_spec arg
  else if zs_eqb op "same_table" then run_same_table arg
  else if zs_eqb op "lookup" then run_lookup arg
  else if zs_eqb op "reduce" then run_reduce arg
  else if zs_eqb op "group_spec" then run_group_spec arg
  else if zs_eqb op "const_true" then vbool true
  else if zs_eqb op "transform" then run_transform arg
  else if zs_eqb op "reshape" then run_reshape arg
  else if zs_eqb op "csv_write" then run_csv_write arg
  else if zs_eqb op "csv_parse" then run_csv_parse arg
  else if zs_eqb op "tee" then run_tee arg
  else if zs_eqb op "tf_run" then run_tf_run arg
  else if zs_eqb op "db_load" then run_db_load arg
  else if zs_eqb op "stream_info" then run_stream_info arg
  else if zs_eqb op "stream_judge" then run_stream_judge arg
  else if zs_eqb op "df_run" then run_df_run arg
  else if zs_eqb op "addfields" then run_addfields arg
  else if zs_eqb op "select" then run_select arg
  else if zs_eqb op "rowslice" then run_rowslice arg
  else if zs_eqb op "tail" then run_tail arg
  else if zs_eqb op "skip" then run_skip arg
  else if zs_eqb op "search" then run_search arg
  else if zs_eqb op "sv_run" then run_sv_run arg
  else if zs_eqb op "cv_run" then run_cv_run arg
  else if zs_eqb op "sv_history" then run_sv_history arg
  else if zs_eqb op "dg_run" then run_dg_run arg
  else if zs_eqb op "stateless_run" then run_stateless_run arg
  else vtuple [vstr "!unknown-op"].
