(* Dispatch.v — one entry point `run op arg` for every executable model and spec.
   Used identically by the extracted runner (coq/extract) and by `Eval vm_compute` re-evaluation. *)
From Verif Require Import PyVal Enc ComparableGen Order.
Open Scope Z_scope.

Definition run_cmp (arg : val) : val :=
  match arg with
  | VSeq _ [a; b] =>
      vtuple [vbool (clt a b); vbool (ceq a b); vbool (cle a b); vbool (cgt a b); vbool (cge a b);
              vbool (vlt a b); vbool (veq a b)]
  | _ => bad_input
  end.

Definition run (op : list Z) (arg : val) : val :=
  if zs_eqb op "cmp" then run_cmp arg
  else vtuple [vstr "!unknown-op"].
