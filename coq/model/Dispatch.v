(* Dispatch.v — one entry point `run op arg` for every executable model and spec.
   Used identically by the extracted runner (coq/extract) and by `Eval vm_compute` re-evaluation. *)
From Verif Require Import PyVal Rows Enc ComparableGen AsIndicesGen Order Sort SortSpec Dedup DedupSpec Basics SetOps SetSpec.
Open Scope Z_scope.

Definition run_cmp (arg : val) : val :=
  match arg with
  | VSeq _ [a; b] =>
      vtuple [vbool (clt a b); vbool (ceq a b); vbool (cle a b); vbool (cgt a b); vbool (cge a b);
              vbool (vlt a b); vbool (veq a b)]
  | _ => bad_input
  end.

Definition enc_optbool (o : option bool) : val :=
  match o with Some b => vbool b | None => VNone end.

(* sort: (buffersize|None, reverse, key|None, table) *)
Definition run_sort (arg : val) : val :=
  match arg with
  | VSeq _ [bs; rev; key; t] =>
      match dec_opt dec_nat bs, dec_bool rev, dec_table t with
      | Some bs', Some rev', Some t' =>
          enc_gen (sort_model bs' rev' (match key with VNone => None | k => Some k end) t')
      | _, _, _ => bad_input
      end
  | _ => bad_input
  end.

(* sort_spec: (reverse, key|None, input table, output table) -> bool | None *)
Definition run_sort_spec (arg : val) : val :=
  match arg with
  | VSeq _ [rev; key; t; o] =>
      match dec_bool rev, dec_table t, dec_table o with
      | Some rev', Some t', Some o' =>
          enc_optbool (sort_spec_holds rev' (match key with VNone => None | k => Some k end) t' o')
      | _, _, _ => bad_input
      end
  | _ => bad_input
  end.

(* mergesort: (key|None, reverse, presorted, missing, header|None, buffersize|None, (tables...)) *)
Definition run_mergesort (arg : val) : val :=
  match arg with
  | VSeq _ [key; rev; pre; missing; header; bs; VSeq _ ts] =>
      match dec_bool rev, dec_bool pre, dec_opt dec_row header, dec_opt dec_nat bs, dec_all dec_table ts with
      | Some rev', Some pre', Some h', Some bs', Some ts' =>
          enc_gen (mergesort_model (match key with VNone => None | k => Some k end) rev' pre' missing h' bs' ts')
      | _, _, _, _, _ => bad_input
      end
  | _ => bad_input
  end.

(* issorted: (key|None, reverse, strict, table) *)
Definition run_issorted (arg : val) : val :=
  match arg with
  | VSeq _ [key; rev; strict; t] =>
      match dec_bool rev, dec_bool strict, dec_table t with
      | Some rev', Some s', Some t' =>
          enc_res vbool (issorted_model (match key with VNone => None | k => Some k end) rev' s' t')
      | _, _, _ => bad_input
      end
  | _ => bad_input
  end.

Definition dec_key (v : val) : option val := match v with VNone => None | k => Some k end.
Definition dec_optlist (v : val) : option (list val) := match v with VSeq _ l => Some l | VNone => None | x => Some [x] end.

(* dedup: (opname, key|None, presorted, buffersize|None, table, extra)
   extra: count field name for distinct_count; (missing, exclude, include) for conflicts *)
Definition run_dedup (arg : val) : val :=
  match arg with
  | VSeq _ [VStr opn; key; pre; bs; t; extra] =>
      match dec_bool pre, dec_opt dec_nat bs, dec_table t with
      | Some pre', Some bs', Some t' =>
          let op :=
            if zs_eqb opn "duplicates" then Some OpDuplicates
            else if zs_eqb opn "unique" then Some OpUnique
            else if zs_eqb opn "distinct" then Some OpDistinct
            else if zs_eqb opn "distinct_count" then Some (OpDistinctCount extra)
            else if zs_eqb opn "conflicts" then
              match extra with
              | VSeq _ [m; ex; inc] => Some (OpConflicts m (dec_optlist ex) (dec_optlist inc))
              | _ => None
              end
            else None in
          match op with
          | Some o => enc_gen (dedup_model o (dec_key key) pre' bs' t')
          | None => bad_input
          end
      | _, _, _ => bad_input
      end
  | _ => bad_input
  end.

Definition run_isunique (arg : val) : val :=
  match arg with
  | VSeq _ [field; t] => match dec_table t with Some t' => enc_res vbool (isunique_model field t') | None => bad_input end
  | _ => bad_input
  end.

(* dedup_spec: (key|None, table, duplicates-out, unique-out, distinct-out, distinct-count-out) *)
Definition run_dedup_spec (arg : val) : val :=
  match arg with
  | VSeq _ [key; t; d; u; di; dc] =>
      match dec_table t, dec_table d, dec_table u, dec_table di, dec_table dc with
      | Some t', Some d', Some u', Some di', Some dc' => enc_optbool (dedup_spec_holds (dec_key key) t' d' u' di' dc')
      | _, _, _, _, _ => bad_input
      end
  | _ => bad_input
  end.

(* setop: (opname, strict, presorted, buffersize|None, table a, table b) *)
Definition run_setop (arg : val) : val :=
  match arg with
  | VSeq _ [VStr opn; strict; pre; bs; ta; tb] =>
      match dec_bool strict, dec_bool pre, dec_opt dec_nat bs, dec_table ta, dec_table tb with
      | Some st, Some pre', Some bs', Some a, Some b =>
          if zs_eqb opn "complement" then enc_gen (setop_model (OpComplement st) pre' bs' a b)
          else if zs_eqb opn "intersection" then enc_gen (setop_model OpIntersection pre' bs' a b)
          else if zs_eqb opn "hashcomplement" then enc_gen (setop_model (OpHashComplement st) pre' bs' a b)
          else if zs_eqb opn "hashintersection" then enc_gen (setop_model OpHashIntersection pre' bs' a b)
          else if zs_eqb opn "recordcomplement" then enc_gen (recordcomplement_model st bs' a b)
          else bad_input
      | _, _, _, _, _ => bad_input
      end
  | _ => bad_input
  end.

(* setop_spec: (kind 0=complement 1=intersection, strict, a, b, out) ; reassemble: (a, comp, inter); subseq: (out, a) *)
Definition run_setop_spec (arg : val) : val :=
  match arg with
  | VSeq _ [kind; strict; ta; tb; out] =>
      match dec_nat kind, dec_bool strict, dec_table ta, dec_table tb, dec_table out with
      | Some k, Some st, Some a, Some b, Some o => enc_optbool (setop_spec_holds k st a b o)
      | _, _, _, _, _ => bad_input
      end
  | _ => bad_input
  end.
Definition run_reassemble (arg : val) : val :=
  match arg with
  | VSeq _ [ta; c; i] =>
      match dec_table ta, dec_table c, dec_table i with
      | Some a, Some c', Some i' => enc_optbool (reassemble_holds a c' i')
      | _, _, _ => bad_input
      end
  | _ => bad_input
  end.
Definition run_subseq (arg : val) : val :=
  match arg with
  | VSeq _ [o; a] =>
      match dec_table o, dec_table a with
      | Some o', Some a' => vbool (subseq (tl o') (tl a'))
      | _, _ => bad_input
      end
  | _ => bad_input
  end.
(* cut: (spec tuple, missing, table) *)
Definition run_cut (arg : val) : val :=
  match arg with
  | VSeq _ [VSeq _ spec; missing; t] =>
      match dec_table t with Some t' => enc_gen (cut_model spec missing t') | None => bad_input end
  | _ => bad_input
  end.

Definition run (op : list Z) (arg : val) : val :=
  if zs_eqb op "cmp" then run_cmp arg
  else if zs_eqb op "sort" then run_sort arg
  else if zs_eqb op "sort_spec" then run_sort_spec arg
  else if zs_eqb op "mergesort" then run_mergesort arg
  else if zs_eqb op "issorted" then run_issorted arg
  else if zs_eqb op "dedup" then run_dedup arg
  else if zs_eqb op "isunique" then run_isunique arg
  else if zs_eqb op "dedup_spec" then run_dedup_spec arg
  else if zs_eqb op "setop" then run_setop arg
  else if zs_eqb op "setop_spec" then run_setop_spec arg
  else if zs_eqb op "reassemble" then run_reassemble arg
  else if zs_eqb op "subseq" then run_subseq arg
  else if zs_eqb op "cut" then run_cut arg
  else vtuple [vstr "!unknown-op"].
