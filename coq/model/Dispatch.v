(* Dispatch.v — one entry point `run op arg` for every executable model and spec.
   Used identically by the extracted runner (coq/extract) and by `Eval vm_compute` re-evaluation. *)
From Verif Require Import PyVal Rows Enc ComparableGen AsIndicesGen Order Sort SortSpec.
Open Scope Z_scope.

Definition run_cmp (arg : val) : val :=
  match arg with
  | VSeq _ [a; b] =>
      vtuple [vbool (clt a b); vbool (ceq a b); vbool (cle a b); vbool (cgt a b); vbool (cge a b);
              vbool (vlt a b); vbool (veq a b)]
  | _ => bad_input
  end.

Definition enc_optbool (o : option bool) : val :=
  match o with Some b => vbool b | None => VNone end.

(* sort: (buffersize|None, reverse, key|None, table) *)
Definition run_sort (arg : val) : val :=
  match arg with
  | VSeq _ [bs; rev; key; t] =>
      match dec_opt dec_nat bs, dec_bool rev, dec_table t with
      | Some bs', Some rev', Some t' =>
          enc_gen (sort_model bs' rev' (match key with VNone => None | k => Some k end) t')
      | _, _, _ => bad_input
      end
  | _ => bad_input
  end.

(* sort_spec: (reverse, key|None, input table, output table) -> bool | None *)
Definition run_sort_spec (arg : val) : val :=
  match arg with
  | VSeq _ [rev; key; t; o] =>
      match dec_bool rev, dec_table t, dec_table o with
      | Some rev', Some t', Some o' =>
          enc_optbool (sort_spec_holds rev' (match key with VNone => None | k => Some k end) t' o')
      | _, _, _ => bad_input
      end
  | _ => bad_input
  end.

(* mergesort: (key|None, reverse, presorted, missing, header|None, buffersize|None, (tables...)) *)
Definition run_mergesort (arg : val) : val :=
  match arg with
  | VSeq _ [key; rev; pre; missing; header; bs; VSeq _ ts] =>
      match dec_bool rev, dec_bool pre, dec_opt dec_row header, dec_opt dec_nat bs, dec_all dec_table ts with
      | Some rev', Some pre', Some h', Some bs', Some ts' =>
          enc_gen (mergesort_model (match key with VNone => None | k => Some k end) rev' pre' missing h' bs' ts')
      | _, _, _, _, _ => bad_input
      end
  | _ => bad_input
  end.

(* issorted: (key|None, reverse, strict, table) *)
Definition run_issorted (arg : val) : val :=
  match arg with
  | VSeq _ [key; rev; strict; t] =>
      match dec_bool rev, dec_bool strict, dec_table t with
      | Some rev', Some s', Some t' =>
          enc_res vbool (issorted_model (match key with VNone => None | k => Some k end) rev' s' t')
      | _, _, _ => bad_input
      end
  | _ => bad_input
  end.

Definition run (op : list Z) (arg : val) : val :=
  if zs_eqb op "cmp" then run_cmp arg
  else if zs_eqb op "sort" then run_sort arg
  else if zs_eqb op "sort_spec" then run_sort_spec arg
  else if zs_eqb op "mergesort" then run_mergesort arg
  else if zs_eqb op "issorted" then run_issorted arg
  else vtuple [vstr "!unknown-op"].
