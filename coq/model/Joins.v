(* Joins.v — model of petl.transform.joins (sort-merge joins) as of the repaired tree:
   stack (squaring up), sort by key, itertools.groupby on Comparable keys, group-wise merge with
   "hanging" flags, joinrows (padding, key copy for right-only rows), antijoin, lookupjoin, crossjoin,
   keys_from_args / natural_key. *)
From Verif Require Import PyVal Rows ComparableGen AsIndicesGen Sort Basics.
Open Scope Z_scope.

(* iterstack for one table: trim and pad every row to the header's length *)
Definition stack1 (missing : val) (t : table) : table :=
  match t with
  | [] => [[]]
  | hdr :: rows => hdr :: map (fun r => pad_to (length hdr) missing (firstn (length hdr) r)) rows
  end.

(* itertools.groupby(rows, key): consecutive rows whose key == the key of the group's first row *)
Definition grp := (val * list row)%type.
Fixpoint groupby (keyf : row -> val) (rows : list row) : list grp :=
  match rows with
  | [] => []
  | r :: t => match groupby keyf t with
              | (k, g) :: rest => if ceq (keyf r) k then (keyf r, r :: g) :: rest else (keyf r, [r]) :: (k, g) :: rest
              | [] => [(keyf r, [r])]
              end
  end.
(* NB: groupby compares with the key of the group's FIRST row; built right-to-left this function compares with the
   next row's group key, which is the same key class because == on Comparable keys is an equivalence (C04). *)

Section JoinRows.
  Variables (lhdr_len : nat) (lkind rkind rvind : list Z) (missing : val).

  Definition rgetv (r : row) : row := map (fun i => match py_nth r i with Some v => v | None => missing end) rvind.

  Definition join_left_only (lg : list row) : list row :=
    map (fun lrow => lrow ++ map (fun _ => missing) rvind) lg.

  Fixpoint set_keys (out : row) (lk rk : list Z) (rrow : row) : row :=
    match lk, rk with
    | li :: lk', ri :: rk' =>
        let v := match py_nth rrow ri with Some v => v | None => missing end in
        set_keys (set_nth (Z.to_nat li) v out) lk' rk' rrow
    | _, _ => out
    end.

  Definition join_right_only (rg : list row) : list row :=
    map (fun rrow => set_keys (repeat missing lhdr_len) lkind rkind rrow ++ rgetv rrow) rg.

  Definition join_both (lg rg : list row) : list row :=
    flat_map (fun lrow => map (fun rrow => lrow ++ rgetv rrow) rg) lg.

  Definition lookup_both (lg rg : list row) : list row :=
    match rg with
    | [] => []
    | rrow :: _ => map (fun lrow => lrow ++ rgetv rrow) lg
    end.

  (* the group-wise merge of iterjoin *)
  Fixpoint join_loop (lo ro : bool) (lgs : list grp) : list grp -> list row :=
    fix inner (rgs : list grp) : list row :=
      match lgs, rgs with
      | [], _ => if ro then flat_map (fun g => join_right_only (snd g)) rgs else []
      | _, [] => if lo then flat_map (fun g => join_left_only (snd g)) lgs else []
      | (lk, lg) :: lt, (rk, rg) :: rt =>
          if clt lk rk then (if lo then join_left_only lg else []) ++ join_loop lo ro lt rgs
          else if cgt lk rk then (if ro then join_right_only rg else []) ++ inner rt
          else join_both lg rg ++ join_loop lo ro lt rt
      end.

  Fixpoint lookupjoin_loop (lgs : list grp) : list grp -> list row :=
    fix inner (rgs : list grp) : list row :=
      match lgs, rgs with
      | [], _ => []
      | _, [] => flat_map (fun g => join_left_only (snd g)) lgs
      | (lk, lg) :: lt, (rk, rg) :: rt =>
          if clt lk rk then join_left_only lg ++ lookupjoin_loop lt rgs
          else if cgt lk rk then inner rt
          else lookup_both lg rg ++ lookupjoin_loop lt rt
      end.
End JoinRows.

Fixpoint antijoin_loop (lgs : list grp) : list grp -> list row :=
  fix inner (rgs : list grp) : list row :=
    match lgs, rgs with
    | [], _ => []
    | _, [] => flat_map (fun g => snd g) lgs
    | (lk, lg) :: lt, (rk, rg) :: rt =>
        if clt lk rk then lg ++ antijoin_loop lt rgs
        else if cgt lk rk then inner rt
        else antijoin_loop lt rt
    end.

(* text_type(prefix) + text_type(f) *)
Definition prefix_field (p : val) (f : val) : val :=
  match py_str p, py_str f with
  | Some a, Some b => VStr (a ++ b)
  | _, _ => f
  end.
Definition prefixed (p : option val) (hdr : row) : row :=
  match p with None => hdr | Some pv => map (prefix_field pv) hdr end.

Definition z_in (i : Z) (l : list Z) : bool := existsb (Z.eqb i) l.

Inductive joinkind := JInner | JLeft | JRight | JOuter | JLookup.

Definition sorted_or (presorted : bool) (bs : option nat) (key : val) (t : table) : gen :=
  if presorted then (t, None) else sort_model bs false (Some key) t.

(* JoinView / LookupJoinView + iterjoin / iterlookupjoin *)
Definition join_model (kind : joinkind) (lkey rkey : val) (presorted : bool) (missing : val)
           (lprefix rprefix : option val) (bs : option nat) (left right : table) : gen :=
  let l0 := stack1 missing left in
  let r0 := stack1 missing right in
  match l0, r0 with
  | lhdr :: _, rhdr :: _ =>
      match asindices lhdr lkey, asindices rhdr rkey with
      | Err e, _ => ([], Some e)
      | _, Err e => ([], Some e)
      | Ok [], _ => ([], Some TypeErr)
      | _, Ok [] => ([], Some TypeErr)
      | Ok lkind, Ok rkind =>
          let rvind := filter (fun i => negb (z_in i rkind)) (zrange (length rhdr) 0) in
          let outhdr := prefixed lprefix lhdr ++ prefixed rprefix (map (fun i => match py_nth rhdr i with Some v => v | None => VNone end) rvind) in
          match sorted_or presorted bs lkey l0, sorted_or presorted bs rkey r0 with
          | (_ :: lrows, None), (_ :: rrows, None) =>
              let lgs := groupby (getkey lkind) lrows in
              let rgs := groupby (getkey rkind) rrows in
              let body :=
                match kind with
                | JInner => join_loop (length lhdr) lkind rkind rvind missing false false lgs rgs
                | JLeft => join_loop (length lhdr) lkind rkind rvind missing true false lgs rgs
                | JRight => join_loop (length lhdr) lkind rkind rvind missing false true lgs rgs
                | JOuter => join_loop (length lhdr) lkind rkind rvind missing true true lgs rgs
                | JLookup => lookupjoin_loop rvind missing lgs rgs
                end in
              (outhdr :: body, None)
          | (_, Some e), _ => ([outhdr], Some e)
          | _, (_, Some e) => ([outhdr], Some e)
          | _, _ => ([outhdr], Some OtherErr)
          end
      end
  | _, _ => ([], Some StopIterLeak)
  end.

(* AntiJoinView + iterantijoin: no squaring up; the header is yielded before the keys are resolved *)
Definition antijoin_model (lkey rkey : val) (presorted : bool) (bs : option nat) (left right : table) : gen :=
  match sorted_or presorted bs lkey left, sorted_or presorted bs rkey right with
  | (lhdr :: lrows, le), (rhdr :: rrows, re) =>
      match asindices lhdr lkey, asindices rhdr rkey with
      | Err e, _ => ([lhdr], Some e)
      | _, Err e => ([lhdr], Some e)
      | Ok [], _ => ([lhdr], Some TypeErr)
      | _, Ok [] => ([lhdr], Some TypeErr)
      | Ok lkind, Ok rkind =>
          match le, re with
          | None, None => (lhdr :: antijoin_loop (groupby (getkey lkind) lrows) (groupby (getkey rkind) rrows), None)
          | Some e, _ => ([lhdr], Some e)
          | None, Some e => ([lhdr], Some e)
          end
      end
  | _, _ => ([], Some StopIterLeak)
  end.

(* natural_key / keys_from_args *)
Definition natural_key (lhdr rhdr : row) : res val :=
  let lf := map hdr_text lhdr in
  let rf := map hdr_text rhdr in
  match filter (fun f => py_in f rf) lf with
  | [] => Err AssertionErr
  | [k] => Ok k
  | ks => Ok (VSeq true ks)
  end.

Definition keys_from_args (lhdr rhdr : row) (key lkey rkey : option val) : res (val * val) :=
  match key, lkey, rkey with
  | None, None, None => match natural_key lhdr rhdr with Ok k => Ok (k, k) | Err e => Err e end
  | Some k, None, None => Ok (k, k)
  | None, Some l, Some r => Ok (l, r)
  | _, _, _ => Err ArgumentErr
  end.

(* itercrossjoin over squared-up sources *)
Fixpoint product (srcs : list (list row)) : list row :=
  match srcs with
  | [] => [[]]
  | s :: rest => flat_map (fun r => map (fun tail => r ++ tail) (product rest)) s
  end.

Definition crossjoin_model (prefix : bool) (missing : val) (tables : list table) : gen :=
  let srcs := map (stack1 missing) tables in
  let hdrs := map (fun t => match t with h :: _ => h | [] => [] end) srcs in
  let outhdr :=
    concat (map (fun ih => let '(i, h) := ih in
                           if prefix then map (fun f => prefix_field (VStr (z_digits i ++ [95])) f) h else h)
                (combine (zrange (length hdrs) 1) hdrs)) in
  (outhdr :: product (map (fun t => tl t) srcs), None).
