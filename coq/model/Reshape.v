(* Reshape.v — model of petl.transform.reshape (melt, recast, transpose, pivot, flatten, unflatten),
   petl.transform.unpacks.unpack, regex split/splitdown with a literal separator, dicts / fromdicts, columns / fromcolumns. *)
From Verif Require Import PyVal Rows Enc ComparableGen AsIndicesGen Sort Basics Dedup Joins Reductions Selects Transforms.
Open Scope Z_scope.

(* ---- melt ------------------------------------------------------------------------------------------------------ *)
Definition melt_model (key : option val) (variables : option val) (variablefield valuefield : val) (t : table) : gen :=
  match key, variables with
  | None, None => ([], Some ValueErr)
  | _, _ =>
      match t with
      | [] => ([], None)
      | hdr :: rows =>
          let kres := match key with Some k => match asindices hdr k with Ok i => Ok (Some i) | Err e => Err e end
                                   | None => Ok None end in
          match kres with
          | Err e => ([], Some e)
          | Ok ki0 =>
              let vres := match variables with
                          | Some v => match asindices hdr (match v with VSeq _ _ => v | x => VSeq false [x] end) with
                                      | Ok i => Ok (Some i) | Err e => Err e end
                          | None => Ok None end in
              match vres with
              | Err e => ([], Some e)
              | Ok vi0 =>
                  let all := zrange (length hdr) 0 in
                  let ki := match ki0 with Some k => k
                                         | None => filter (fun i => negb (z_in i (match vi0 with Some v => v | None => [] end))) all end in
                  let vi := match vi0 with Some v => v | None => filter (fun i => negb (z_in i ki)) all end in
                  let vnames := match variables, vi0 with
                                | Some (VSeq _ l), _ => l
                                | Some x, _ => [x]
                                | None, _ => map (fun i => match py_nth hdr i with Some f => f | None => VNone end) vi
                                end in
                  match rowgetter ki hdr with
                  | None => ([], Some IndexErr)
                  | Some khdr =>
                      let '(out, e) :=
                        (fix go (rows : list row) : list row * option exn :=
                           match rows with
                           | [] => ([], None)
                           | r :: rest =>
                               match rowgetter ki r with
                               | None => ([], Some IndexErr)
                               | Some k =>
                                   let here := flat_map (fun vn_i => match py_nth r (snd vn_i) with
                                                                     | Some x => [k ++ [fst vn_i; x]]
                                                                     | None => []          (* short row: no row for this variable *)
                                                                     end) (combine vnames vi) in
                                   let '(o, e) := go rest in (here ++ o, e)
                               end
                           end) rows in
                      ((khdr ++ [variablefield; valuefield]) :: out, e)
                  end
              end
          end
      end
  end.

(* ---- recast (scalar variablefield, no reducers: several values are listed) ----------------------------------- *)
(* the cell of one output row under one variable: the values the group's rows carry for it *)
Definition recast_cell (varidx vidx : Z) (missing : val) (grows : list row) (variable : val) : res val :=
  match all_some (map (fun r => match py_nth r varidx, py_nth r vidx with
                                | Some a, Some b => Some (a, b)
                                | _, _ => None end) grows) with
  | None => Err IndexErr
  | Some pairs =>
      let vals := map snd (filter (fun p => py_eq (fst p) variable) pairs) in
      Ok (match vals with [] => missing | [x] => x | _ => VSeq true vals end)
  end.

(* one output row per key group: the key cells followed by one cell per variable *)
Definition recast_group (kidx : list Z) (varidx vidx : Z) (missing : val) (vars : list val) (g : grp) : res row :=
  match snd g with
  | [] => Err OtherErr
  | r0 :: _ =>
      match raw_getkey kidx r0 with
      | None => Err IndexErr
      | Some kv =>
          let kcells := match kidx with [_] => [kv] | _ => match kv with VSeq _ l => l | x => [x] end end in
          match mapM (recast_cell varidx vidx missing (snd g)) vars with
          | Ok cells => Ok (kcells ++ cells)
          | Err e => Err e
          end
      end
  end.

Definition recast_model (key : option val) (variablefield valuefield : val) (samplesize : nat) (missing : val)
           (bs : option nat) (t : table) : gen :=
  match t with
  | [] => ([], None)
  | hdr :: rows =>
      let flds := map hdr_text hdr in
      let keyfields := match key with
                       | Some (VSeq _ l) => l
                       | Some k => [k]
                       | None => filter (fun f => negb (py_eq f variablefield) && negb (py_eq f valuefield)) flds
                       end in
      match py_index valuefield flds, all_some (map (fun f => py_index f flds) keyfields), py_index variablefield flds with
      | Some vidx, Some kidx, Some varidx =>
          if py_in valuefield keyfields || py_eq valuefield variablefield then ([], Some AssertionErr) else
          (* sample the variable names, as a sorted list of distinct values *)
          match all_some (map (fun r => py_nth r varidx) (firstn samplesize rows)) with
          | None => ([], Some IndexErr)
          | Some names =>
              let vars := pysort (fun a b => match py_lt b a with Some true => false | _ => true end) (dedup_vals [] names) in
              let outhdr := keyfields ++ vars in
              match kidx with
              | [] => ([outhdr], Some TypeErr)
              | _ =>
                  match sort_model bs false (Some (VSeq true keyfields)) (hdr :: rows) with
                  | (_ :: srows, None) =>
                      let '(out, e) := gen_map (recast_group kidx varidx vidx missing vars) (groupby (getkey kidx) srows) in
                      (outhdr :: out, e)
                  | (_, Some e) => ([outhdr], Some e)
                  | ([], None) => ([outhdr], None)
                  end
              end
          end
      | _, _, _ => ([], Some AssertionErr)
      end
  end.

(* ---- transpose: one source iterator per column --------------------------------------------------------------------- *)
Definition col (i : nat) (t : table) : option row := all_some (map (fun r => nth_error r i) t).

Definition transpose_model (t : table) : gen :=
  match t with
  | [] => ([], Some StopIterLeak)
  | hdr :: _ =>
      (fix go (is : list nat) : list row * option exn :=
         match is with
         | [] => ([], None)
         | i :: rest => match col i t with
                        | None => ([], Some IndexErr)
                        | Some c => let '(o, e) := go rest in (c :: o, e)
                        end
         end) (seq 0 (length hdr))
  end.

(* ---- flatten / unflatten ------------------------------------------------------------------------------------------ *)
Definition flatten_model (t : table) : list val := concat (tl t).

Fixpoint unflatten_loop (period : nat) (missing : val) (cur : row) (vs : list val) : list row :=
  match vs with
  | [] => match cur with
          | [] => []
          | _ => [if (length cur <? period)%nat then cur ++ repeat missing (period - length cur) else cur]
          end
  | v :: t => if (length cur <? period)%nat then unflatten_loop period missing (cur ++ [v]) t
              else cur :: unflatten_loop period missing [v] t
  end.

Definition fname (i : Z) : val := VStr (102 :: z_digits i).
Definition unflatten_model (period : nat) (missing : val) (vs : list val) : gen :=
  (map fname (zrange period 0) :: unflatten_loop period missing [] vs, None).

(* ---- pivot (aggregation from the zoo) ---------------------------------------------------------------------------------- *)
(* itertools.groupby with RAW == on consecutive rows, keyed by the cell at position i (None when the row is too short) *)
Definition rawkey (i : Z) (r : row) : val := match py_nth r i with Some v => v | None => VNone end.
Fixpoint rawgroup (i : Z) (rows : list row) : list (val * list row) :=
  match rows with
  | [] => []
  | r :: t => match rawgroup i t with
              | (k, g) :: rest => if py_eq (rawkey i r) k then (rawkey i r, r :: g) :: rest
                                  else (rawkey i r, [r]) :: (k, g) :: rest
              | [] => [(rawkey i r, [r])]
              end
  end.

(* one f2-group of an f1-group: its aggregate goes into the column of its f2 value *)
Definition pivot_step (i3 : Z) (agg : Z) (f2vals : list val) (acc : res row) (g2 : val * list row) : res row :=
  match acc with
  | Err e => Err e
  | Ok row =>
      match all_some (map (fun r => py_nth r i3) (snd g2)), py_index (fst g2) f2vals with
      | Some vals, Some j =>
          match apply_agg agg true vals with
          | Ok a => Ok (set_nth (Z.to_nat j) a row)
          | Err e => Err e
          end
      | None, _ => Err IndexErr
      | _, None => Err ValueErr
      end
  end.
Definition pivot_cells (i3 : Z) (agg : Z) (missing : val) (f2vals : list val) (groups : list (val * list row)) : res row :=
  fold_left (pivot_step i3 agg f2vals) groups (Ok (map (fun _ => missing) f2vals)).

Definition pivot_model (f1 f2 f3 : val) (agg : Z) (missing : val) (presorted : bool) (bs : option nat) (t : table) : gen :=
  let src := if presorted then (t, None) else sort_model bs false (Some (VSeq false [f1; f2])) t in
  match src with
  | (hdr :: rows, None) =>
      let flds := map hdr_text hdr in
      match itervalues_model VNone f2 (hdr :: rows) with
      | Err e => ([], Some e)
      | Ok vs =>
          let f2vals := pysort (fun a b => match py_lt b a with Some true => false | _ => true end) (dedup_vals [] vs) in
          let outhdr := f1 :: f2vals in
          match py_index f1 flds, py_index f2 flds, py_index f3 flds with
          | Some i1, Some i2, Some i3 =>
              let '(out, e) :=
                gen_map (fun g1 : val * list row =>
                  match pivot_cells i3 agg missing f2vals (rawgroup i2 (snd g1)) with
                  | Ok c => Ok (fst g1 :: c)
                  | Err e => Err e
                  end) (rawgroup i1 rows) in
              (outhdr :: out, e)
          | _, _, _ => ([outhdr], Some ValueErr)
          end
      end
  | (hdr :: _, Some e) => ([], Some e)
  | ([], _) => ([[f1]], Some ValueErr)
  end.

(* ---- unpack --------------------------------------------------------------------------------------------------------- *)
(* what unpack keeps of a row: everything, or everything but the unpacked field *)
Definition unpack_keep (include_original : bool) (i : Z) (r : row) : row :=
  if include_original then r
  else map snd (filter (fun p => negb (fst p =? i)) (combine (zrange (length r) 0) r)).

(* the cells unpacked from one value: the first n items of a sequence / characters of a text, padded with `missing` *)
Definition unpack_cells (n : nat) (missing : val) (v : val) : res row :=
  match v with
  | VSeq _ l => Ok (if (0 <? n)%nat then (if (n <=? length l)%nat then firstn n l else l ++ repeat missing (n - length l)) else [])
  | VStr s => Ok (if (0 <? n)%nat then (if (n <=? length s)%nat then [VStr (firstn n s)]
                                         else map (fun c => VStr [c]) s ++ repeat missing (n - length s)) else [])
  | _ => Err TypeErr
  end.

Definition unpack_row (include_original : bool) (i : Z) (n : nat) (missing : val) (r : row) : res row :=
  match py_nth r i with
  | None => Err IndexErr
  | Some v => match unpack_cells n missing v with
              | Ok cells => Ok (unpack_keep include_original i r ++ cells)
              | Err e => Err e
              end
  end.

Definition unpack_model (field : val) (newfields : list val) (include_original : bool) (missing : val) (t : table) : gen :=
  let '(hdr, rows) := match t with [] => ([], []) | h :: r => (h, r) end in
  let flds := map hdr_text hdr in
  let fi := match py_index field flds with
            | Some i => Some i
            | None => if is_int field && (int_of field <? zlen flds) then Some (int_of field) else None
            end in
  match fi with
  | None => ([], Some ArgumentErr)
  | Some i =>
      let outhdr := (if include_original then flds
                     else match py_index (match py_nth flds i with Some f => f | None => VNone end) flds with
                          | Some j => map snd (filter (fun p => negb (fst p =? j)) (combine (zrange (length flds) 0) flds))
                          | None => flds end) ++ newfields in
      let '(o, e) := map_rows (unpack_row include_original i (length newfields) missing) rows in
      (outhdr :: o, e)
  end.

(* ---- split / splitdown with a literal one-character separator ------------------------------------------------------ *)
Fixpoint split_on (sep : Z) (cur : list Z) (s : list Z) : list (list Z) :=
  match s with
  | [] => [rev cur]
  | c :: t => if c =? sep then rev cur :: split_on sep [] t else split_on sep (c :: cur) t
  end.

Definition splitdown_model (field : val) (sep : Z) (t : table) : gen :=
  match t with
  | [] => ([], None)
  | hdr :: rows =>
      let flds := map hdr_text hdr in
      let fi := if is_int field && (int_of field <? zlen hdr) then Some (int_of field) else py_index field flds in
      match fi with
      | None => ([], Some ArgumentErr)
      | Some i =>
          let '(o, e) :=
            (fix go (rows : list row) : list row * option exn :=
               match rows with
               | [] => ([], None)
               | r :: rest =>
                   match py_nth r i with
                   | Some (VStr s) =>
                       match mapM (fun part => mapM (fun j => if j =? i then Ok (VStr part)
                                                              else match py_nth r j with Some v => Ok v | None => Err IndexErr end)
                                                    (zrange (length hdr) 0)) (split_on sep [] s) with
                       | Ok here => let '(o, e) := go rest in (here ++ o, e)
                       | Err e => ([], Some e)
                       end
                   | Some _ => ([], Some TypeErr)
                   | None => ([], Some IndexErr)
                   end
               end) rows in
          (hdr :: o, e)
      end
  end.

(* ---- dicts / fromdicts, columns / fromcolumns: records and columns carry the fields by name ------------------------- *)
(* dicts(t): each row as an insertion-ordered association list field -> value (short rows padded with missing) *)
Definition asdict (flds : list val) (missing : val) (r : row) : list (val * val) :=
  (* dict(zip(flds, row)) with later duplicates overriding, then missing for absent fields *)
  fold_left (fun d fv => let '(f, v) := fv in
                         if existsb (fun kv => py_eq (fst kv) f) d
                         then map (fun kv => if py_eq (fst kv) f then (fst kv, v) else kv) d
                         else d ++ [(f, v)])
            (combine flds (pad_to (length flds) missing r)) [].

Definition dicts_model (missing : val) (t : table) : list (list (val * val)) :=
  match t with [] => [] | hdr :: rows => map (asdict (map hdr_text hdr) missing) rows end.

(* fromdicts(dicts) without header: fields discovered from the keys of the first `sample` dicts, in order *)
Definition fromdicts_model (sample : nat) (missing : val) (ds : list (list (val * val))) : table :=
  let header := fold_left (fun h d => fold_left (fun h kv => if py_in (fst kv) h then h else h ++ [fst kv]) d h)
                          (firstn sample ds) [] in
  header :: map (fun d => map (fun f => match find (fun kv => py_eq (fst kv) f) d with
                                        | Some kv => snd kv | None => missing end) header) ds.

Definition columns_model (missing : val) (t : table) : list (val * list val) :=
  match t with
  | [] => []
  | hdr :: rows => map (fun fi => (fst fi, map (fun r => match py_nth r (snd fi) with Some v => v | None => missing end) rows))
                       (combine (map hdr_text hdr) (zrange (length hdr) 0))
  end.

Fixpoint zip_longest_cols (fuel : nat) (missing : val) (cols : list (list val)) : list row :=
  match fuel with
  | O => []
  | Datatypes.S f =>
      if forallb (fun c => match c with [] => true | _ => false end) cols then []
      else map (fun c => match c with [] => missing | x :: _ => x end) cols :: zip_longest_cols f missing (map (fun c => tl c) cols)
  end.
Definition fromcolumns_model (header : row) (missing : val) (cols : list (list val)) : table :=
  header :: zip_longest_cols (fold_right (fun c n => Nat.max (length c) n) O cols) missing cols.
