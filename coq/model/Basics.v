(* Basics.v — models of petl.transform.basics (cut first; the rest is added with C12). *)
From Verif Require Import PyVal Rows ComparableGen AsIndicesGen.
Open Scope Z_scope.

(* rowgetter( *indices )(row): None = IndexError *)
Definition rowgetter (indices : list Z) (r : row) : option row := all_some (map (py_nth r) indices).

(* itercut *)
Definition cut_row (indices : list Z) (missing : val) (r : row) : res row :=
  match rowgetter indices r with
  | Some out => Ok out
  | None =>
      (* tuple(row[i] if i < len(row) else missing for i in indices) *)
      mapM (fun i => if i <? zlen r then match py_nth r i with Some v => Ok v | None => Err IndexErr end
                     else Ok missing) indices
  end.

Fixpoint map_rows (f : row -> res row) (rows : list row) : list row * option exn :=
  match rows with
  | [] => ([], None)
  | r :: t => match f r with
              | Err e => ([], Some e)
              | Ok o => let '(out, e) := map_rows f t in (o :: out, e)
              end
  end.

Definition cut_model (spec : list val) (missing : val) (t : table) : gen :=
  let '(hdr, rows) := match t with [] => ([], []) | h :: r => (h, r) end in
  match asindices hdr (VSeq false spec) with
  | Err e => ([], Some e)
  | Ok indices =>
      match rowgetter indices hdr with
      | None => ([], Some IndexErr)
      | Some ohdr => let '(out, e) := map_rows (cut_row indices missing) rows in (ohdr :: out, e)
      end
  end.
