(* Db.v — a DB-API connection in transactional (default) mode, and petl's load programs run against it.

   The programs themselves (which calls are made on the connection / cursor, in which order, under which flag) are NOT
   written here: they are regenerated from petl/io/db.py on every run (gen/DbProgGen.v, translator/dbprog.py).
   This file gives the action language its meaning:
     committed : what a fresh connection sees;  pending : the working copy of the open transaction, if any.
   DELETE and INSERT open a transaction implicitly (sqlite3 legacy transaction control), commit publishes the working copy,
   closing the connection or rolling back discards it.  executemany pulls the source row by row, inserting each row as it
   is pulled; it raises when the source raises, and when a row does not have as many values as the header has fields. *)
From Verif Require Import PyVal.

Inductive flag := FTruncate | FCommit.

Inductive action :=
| APullHeader            (* it = iter(table); hdr = next(it) *)
| ACursor                (* connection.cursor() / mkcurs() *)
| ACloseCursor           (* cursor.close() *)
| AExecTruncate          (* cursor.execute('DELETE FROM t') *)
| AExecMany              (* cursor.executemany('INSERT ...', it) *)
| ACommit                (* connection.commit() *)
| ARollback              (* connection.rollback() *)
| AIf (f : flag) (body : list action).

Record dbst := { committed : list row; pending : option (list row) }.
Definition visible (s : dbst) : list row := match pending s with Some w => w | None => committed s end.

(* the source pipeline: header, data rows, and where it raises (Some 0: at the header; Some (S i): when data row i is
   requested, i = number of rows meaning "at exhaustion") *)
Record source := { s_hdr : row; s_rows : list row; s_fail : option nat }.

Definition flag_on (tr cm : bool) (f : flag) : bool := match f with FTruncate => tr | FCommit => cm end.

Fixpoint flat1 (tr cm : bool) (a : action) : list action :=
  match a with
  | AIf f body =>
      if flag_on tr cm f
      then (fix go (l : list action) : list action := match l with [] => [] | x :: t => flat1 tr cm x ++ go t end) body
      else []
  | b => [b]
  end.
Fixpoint flatten (tr cm : bool) (p : list action) : list action :=
  match p with [] => [] | a :: t => flat1 tr cm a ++ flatten tr cm t end.

(* executemany: (working copy, raised?) *)
Fixpoint exec_many (width : nat) (fail : option nat) (i : nat) (rows : list row) (w : list row) : list row * bool :=
  match rows with
  | [] => (w, match fail with Some f => Nat.eqb f (S i) | None => false end)
  | r :: t =>
      if match fail with Some f => Nat.eqb f (S i) | None => false end then (w, true)
      else if negb (Nat.eqb (length r) width) then (w, true)
      else exec_many width fail (S i) t (w ++ [r])
  end.

Definition step (src : source) (s : dbst) (a : action) : dbst * bool :=
  match a with
  | APullHeader => (s, match s_fail src with Some O => true | _ => false end)
  | ACursor | ACloseCursor => (s, false)
  | AExecTruncate => ({| committed := committed s; pending := Some [] |}, false)
  | AExecMany =>
      let '(w, raised) := exec_many (length (s_hdr src)) (s_fail src) O (s_rows src) (visible s) in
      ({| committed := committed s; pending := Some w |}, raised)
  | ACommit => ({| committed := visible s; pending := None |}, false)
  | ARollback => ({| committed := committed s; pending := None |}, false)
  | AIf _ _ => (s, false)             (* does not occur in a flattened program *)
  end.

(* run until an action raises *)
Fixpoint dbrun (src : source) (l : list action) (s : dbst) : dbst * bool :=
  match l with
  | [] => (s, false)
  | a :: t => let '(s', raised) := step src s a in if raised then (s', true) else dbrun src t s'
  end.

(* todb / appenddb on a file name: connect; try: load finally: close  — closing discards the open transaction *)
Definition close_conn (s : dbst) : dbst := {| committed := committed s; pending := None |}.
Definition run_prog (closes : bool) (tr cm : bool) (p : list action) (src : source) (s : dbst) : dbst * bool :=
  let '(s', raised) := dbrun src (flatten tr cm p) s in ((if closes then close_conn s' else s'), raised).

(* ---- shape analysis (computed on the regenerated programs) ---------------------------------------------------------------- *)
Definition significant (a : action) : bool :=
  match a with ACursor | ACloseCursor | AIf _ _ => false | _ => true end.
Definition action_eqb (a b : action) : bool :=
  match a, b with
  | APullHeader, APullHeader | ACursor, ACursor | ACloseCursor, ACloseCursor | AExecTruncate, AExecTruncate
  | AExecMany, AExecMany | ACommit, ACommit | ARollback, ARollback => true
  | _, _ => false
  end.
Fixpoint actions_eqb (a b : list action) : bool :=
  match a, b with
  | [], [] => true
  | x :: s, y :: t => action_eqb x y && actions_eqb s t
  | _, _ => false
  end.
(* the load protocol: header first, DELETE iff truncating, one executemany, commit last iff committing *)
Definition canonical (tr cm : bool) : list action :=
  [APullHeader] ++ (if tr then [AExecTruncate] else []) ++ [AExecMany] ++ (if cm then [ACommit] else []).
Definition has_shape (p : list action) : bool :=
  forallb (fun trcm => actions_eqb (filter significant (flatten (fst trcm) (snd trcm) p)) (canonical (fst trcm) (snd trcm)))
          [(false, false); (false, true); (true, false); (true, true)].
