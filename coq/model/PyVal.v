(* PyVal.v — the value universe shared by every model (DESIGN.md 3.1).
   Executable definitions only; no proofs here. *)
From Coq Require Export Strings.String Strings.Ascii.
From Coq Require Export ZArith QArith List Bool.
Export ListNotations.
Open Scope Z_scope.

(* numbers: bool / int / float / Decimal compare exactly in CPython, so a number is an
   extended rational; the kind is kept only for rendering (str()) and typing. *)
Inductive xq := NInf | Fin (q : Q) | PInf.
Inductive numkind := KBool | KInt | KFloat | KDecimal.

Inductive val :=
| VNone
| VNum (k : numkind) (x : xq)
| VBytes (b : list Z)
| VStr (s : list Z)                 (* code points *)
| VDate (ordinal : Z)
| VDatetime (micros : Z)            (* naive only *)
| VTime (micros : Z)
| VSeq (islist : bool) (l : list val).   (* tuple (false) / list (true) *)

(* nested induction principle *)
Section ValInd.
  Variable P : val -> Prop.
  Hypothesis HNone : P VNone.
  Hypothesis HNum : forall k x, P (VNum k x).
  Hypothesis HBytes : forall b, P (VBytes b).
  Hypothesis HStr : forall s, P (VStr s).
  Hypothesis HDate : forall z, P (VDate z).
  Hypothesis HDatetime : forall z, P (VDatetime z).
  Hypothesis HTime : forall z, P (VTime z).
  Hypothesis HSeq : forall b l, Forall P l -> P (VSeq b l).
  Fixpoint val_ind' (v : val) : P v :=
    match v with
    | VNone => HNone
    | VNum k x => HNum k x
    | VBytes b => HBytes b
    | VStr s => HStr s
    | VDate z => HDate z
    | VDatetime z => HDatetime z
    | VTime z => HTime z
    | VSeq b l => HSeq b l ((fix go (l : list val) : Forall P l :=
                               match l with
                               | [] => Forall_nil P
                               | x :: xs => Forall_cons x (val_ind' x) (go xs)
                               end) l)
    end.
End ValInd.

(* ---- comparisons on the scalar carriers ------------------------------------------- *)
Definition xq_cmp (a b : xq) : comparison :=
  match a, b with
  | NInf, NInf => Eq
  | NInf, _ => Lt
  | _, NInf => Gt
  | PInf, PInf => Eq
  | PInf, _ => Gt
  | _, PInf => Lt
  | Fin p, Fin q => Qcompare p q
  end.

Fixpoint zl_cmp (a b : list Z) : comparison :=
  match a, b with
  | [], [] => Eq
  | [], _ :: _ => Lt
  | _ :: _, [] => Gt
  | x :: xs, y :: ys => match Z.compare x y with Eq => zl_cmp xs ys | c => c end
  end.

Definition is_lt (c : comparison) : bool := match c with Lt => true | _ => false end.
Definition is_eq (c : comparison) : bool := match c with Eq => true | _ => false end.
Definition is_gt (c : comparison) : bool := match c with Gt => true | _ => false end.

Definition zl_lt (a b : list Z) : bool := is_lt (zl_cmp a b).
Definition zl_eqb (a b : list Z) : bool := is_eq (zl_cmp a b).

(* Python string literals appearing in generated code, as code-point lists *)
Fixpoint zs (s : string) : list Z :=
  match s with
  | EmptyString => []
  | String c r => Z.of_N (N_of_ascii c) :: zs r
  end.

(* ---- isinstance tests used by petl.comparison ---------------------------------------- *)
Definition is_none (v : val) : bool := match v with VNone => true | _ => false end.
Definition is_numeric (v : val) : bool := match v with VNum _ _ => true | _ => false end.
Definition is_text (v : val) : bool := match v with VStr _ => true | _ => false end.
Definition is_binary (v : val) : bool := match v with VBytes _ => true | _ => false end.
Definition is_seq (v : val) : bool := match v with VSeq _ _ => true | _ => false end.

(* type(x).__name__ of the object stored in Comparable.obj (lists are stored as tuples) *)
Definition py_typename (v : val) : list Z :=
  match v with
  | VNone => zs "NoneType"
  | VNum KBool _ => zs "bool"
  | VNum KInt _ => zs "int"
  | VNum KFloat _ => zs "float"
  | VNum KDecimal _ => zs "Decimal"
  | VBytes _ => zs "bytes"
  | VStr _ => zs "str"
  | VDate _ => zs "date"
  | VDatetime _ => zs "datetime"
  | VTime _ => zs "time"
  | VSeq _ _ => zs "tuple"
  end.

(* CPython's native `<` between two non-sequence objects: None = TypeError *)
Definition native_scalar_lt (a b : val) : option bool :=
  match a, b with
  | VNum _ x, VNum _ y => Some (is_lt (xq_cmp x y))
  | VBytes x, VBytes y => Some (zl_lt x y)
  | VStr x, VStr y => Some (zl_lt x y)
  | VDate x, VDate y => Some (x <? y)
  | VDatetime x, VDatetime y => Some (x <? y)
  | VTime x, VTime y => Some (x <? y)
  | _, _ => None
  end.

(* CPython's native `==` between two non-sequence objects (never raises) *)
Definition native_scalar_eq (a b : val) : bool :=
  match a, b with
  | VNone, VNone => true
  | VNum _ x, VNum _ y => is_eq (xq_cmp x y)
  | VBytes x, VBytes y => zl_eqb x y
  | VStr x, VStr y => zl_eqb x y
  | VDate x, VDate y => x =? y
  | VDatetime x, VDatetime y => x =? y
  | VTime x, VTime y => x =? y
  | _, _ => false
  end.

(* Python `==` on raw (unwrapped) values: tuple <> list *)
Fixpoint py_eq (a b : val) {struct a} : bool :=
  match a, b with
  | VSeq i1 l1, VSeq i2 l2 =>
      Bool.eqb i1 i2 &&
      (fix go (l1 l2 : list val) : bool :=
         match l1, l2 with
         | [], [] => true
         | x :: xs, y :: ys => py_eq x y && go xs ys
         | _, _ => false
         end) l1 l2
  | _, _ => native_scalar_eq a b
  end.

(* ---- rows, tables, errors ------------------------------------------------------------ *)
Definition row := list val.
Definition table := list row.

Inductive exn :=
| TypeErr | IndexErr | KeyErr | ValueErr | FieldSelectionErr | DuplicateKeyErr
| ArgumentErr | StopIterLeak | StopIter | AttributeErr | ZeroDivErr | AssertionErr | UserErr (tag : Z) | OtherErr.

Inductive res (A : Type) := Ok (a : A) | Err (e : exn).
Arguments Ok {A} a.
Arguments Err {A} e.

Definition bind {A B} (r : res A) (f : A -> res B) : res B :=
  match r with Ok a => f a | Err e => Err e end.

(* a generator that may raise after having yielded some rows *)
Definition gen := (list row * option exn)%type.
