(* GenIR.v — effect skeletons of generator functions.

   A skeleton keeps of a generator body only what matters for laziness: where it asks the source for a row (Pull, and
   the per-iteration pull of `for row in it`), where it delivers a row (Yield), where it hands the source iterator to an
   eager consumer (Eager: list / tuple / sorted / set / dict / sum / len / min / max / deque / join ... of the iterator),
   and the control structure around these.  Data-dependent choices are non-deterministic (spec/GenSem.v).
   The skeletons themselves are regenerated from the petl sources on every run (gen/StreamGen.v). *)
From Coq Require Import List Arith Bool.
Import ListNotations.

Inductive stmt :=
| Skip | Pull | Yield | Eager | Ret | Brk | Cont
| Seq (a b : stmt)
| Alt (a b : stmt)            (* if / else *)
| Try (body handler : stmt)   (* try / except *)
| For (body : stmt)           (* for row in <source iterator>: body *)
| Rep (body : stmt).          (* a loop over something that is not the source *)

(* never asks the source for anything *)
Fixpoint pull_free (s : stmt) : bool :=
  match s with
  | Pull | Eager | For _ => false
  | Seq a b | Alt a b | Try a b => pull_free a && pull_free b
  | Rep b => pull_free b
  | _ => true
  end.

(* never finishes with `continue` *)
Fixpoint no_cont (s : stmt) : bool :=
  match s with
  | Cont => false
  | Seq a b | Alt a b | Try a b => no_cont a && no_cont b
  | _ => true
  end.

(* whenever it runs to its end (or to a `continue`) it has delivered at least one row *)
Fixpoint must_yield (s : stmt) : bool :=
  match s with
  | Yield | Ret | Brk => true
  | Seq a b => must_yield a || (must_yield b && no_cont a)
  | Alt a b => must_yield a && must_yield b
  | Try a h => must_yield a && must_yield h
  | _ => false
  end.

(* pulls that are not matched by a delivered row: one per Pull statement outside loops, one per loop over the source *)
Fixpoint slack (s : stmt) : nat :=
  match s with
  | Pull | For _ => 1
  | Seq a b | Try a b => slack a + slack b
  | Alt a b => Nat.max (slack a) (slack b)
  | _ => 0
  end.

(* the streaming normal form of a row-by-row transformation: no eager consumer; the source is asked for rows only by
   top-level Pull statements and by `for` loops whose body asks for nothing more and delivers at least one row *)
Fixpoint wf_map (s : stmt) : bool :=
  match s with
  | Eager => false
  | For b => pull_free b && must_yield b
  | Rep b => pull_free b
  | Seq a b | Alt a b | Try a b => wf_map a && wf_map b
  | _ => true
  end.

(* the same without the obligation to deliver a row per iteration (selections, slices, skips) *)
Fixpoint wf_filter (s : stmt) : bool :=
  match s with
  | Eager => false
  | For b => pull_free b
  | Rep b => pull_free b
  | Seq a b | Alt a b | Try a b => wf_filter a && wf_filter b
  | _ => true
  end.

(* a constructor body: stores its arguments, asks the source for nothing *)
Definition ctor_ok (s : stmt) : bool := pull_free s.

(* a constructor that may consult header rows: a bounded number of single pulls, no loop over a source *)
Fixpoint has_for (s : stmt) : bool :=
  match s with
  | For _ => true
  | Seq a b | Alt a b | Try a b => has_for a || has_for b
  | Rep b => has_for b
  | _ => false
  end.
Definition header_only (s : stmt) : bool := wf_map s && negb (has_for s).

From Coq Require Import String.
Fixpoint lookup_skel (name : string) (l : list (string * stmt)) : option stmt :=
  match l with
  | [] => None
  | (n, s) :: t => if String.eqb n name then Some s else lookup_skel name t
  end.
Definition all_in_class (cls : stmt -> bool) (names : list string) (l : list (string * stmt)) : bool :=
  forallb (fun n => match lookup_skel n l with Some s => cls s | None => false end) names.
