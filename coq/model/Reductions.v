(* Reductions.v — models of petl.util.base.rowgroupby and petl.transform.reductions / petl.util.counting.
   User callables are drawn from a small zoo shared with harness/zoo.py; a callable is encoded as ("!fn", id). *)
From Verif Require Import PyVal Rows Enc ComparableGen AsIndicesGen Sort Basics Dedup Joins.
Open Scope Z_scope.

Definition fn_id (v : val) : option Z :=
  match v with
  | VSeq false [VStr tag; VNum KInt (Fin q)] => if zl_eqb tag (zs "!fn") then Some (Qnum q) else None
  | _ => None
  end.
Definition is_callable (v : val) : bool := match fn_id v with Some _ => true | None => false end.
Definition is_string (v : val) : bool := match v with VStr _ => true | _ => false end.
Definition is_seqv (v : val) : bool := match v with VSeq _ _ => true | _ => false end.

(* ---- the zoo ---------------------------------------------------------------------------------------- *)
Fixpoint sum_ints (acc : Z) (l : list val) : res Z :=
  match l with
  | [] => Ok acc
  | VNum KInt (Fin q) :: t | VNum KBool (Fin q) :: t =>
      if Zpos (Qden q) =? 1 then sum_ints (acc + Qnum q) t else Err TypeErr
  | _ => Err TypeErr
  end.

Fixpoint extreme (want_max : bool) (best : val) (l : list val) : res val :=
  match l with
  | [] => Ok best
  | x :: t => match (if want_max then py_lt best x else py_lt x best) with
              | None => Err TypeErr
              | Some true => extreme want_max x t
              | Some false => extreme want_max best t
              end
  end.

Fixpoint dedup_vals (seen : list val) (l : list val) : list val :=
  match l with
  | [] => rev seen
  | x :: t => if py_in x seen then dedup_vals seen t else dedup_vals (x :: seen) t
  end.

(* aggregation functions; as_list = the argument is a list (False: a generator, so len() fails) *)
Definition apply_agg (id : Z) (as_list : bool) (vals : list val) : res val :=
  if id =? 0 then (if as_list then Ok (vint (zlen vals)) else Err TypeErr)                   (* len *)
  else if id =? 1 then Ok (VSeq true vals)                                                    (* list *)
  else if id =? 2 then match sum_ints 0 vals with Ok z => Ok (vint z) | Err e => Err e end    (* sum *)
  else if id =? 3 then match vals with [] => Err ValueErr | x :: t => extreme false x t end   (* min *)
  else if id =? 4 then match vals with [] => Err ValueErr | x :: t => extreme true x t end    (* max *)
  else if id =? 5 then match vals with [] => Err StopIter | x :: _ => Ok x end                (* lambda g: next(iter(g)) *)
  else if id =? 6 then Ok (VSeq false vals)                                                   (* tuple *)
  else if id =? 7 then Ok (vint (zlen (dedup_vals [] vals)))                                  (* lambda g: len(set(g)) *)
  else if id =? 8 then Ok (vint (zlen vals))                                                  (* lambda g: sum(1 for _ in g) *)
  else Err OtherErr.

(* reducers for rowreduce: (key, rows) -> row *)
Definition apply_reducer (id : Z) (k : val) (rows : list row) : res row :=
  if id =? 0 then Ok [k; vint (zlen rows)]
  else if id =? 1 then match rows with [] => Err StopIter | r :: _ => Ok r end
  else if id =? 2 then match rows with [] => Err TypeErr | _ => Ok (last rows []) end
  else Err OtherErr.

(* binary functions for fold *)
Definition apply_fold2 (id : Z) (a b : val) : res val :=
  if id =? 0 then                                                                              (* operator.add *)
    match a, b with
    | VSeq i l1, VSeq j l2 => if Bool.eqb i j then Ok (VSeq i (l1 ++ l2)) else Err TypeErr
    | _, _ => match sum_ints 0 [a; b] with Ok z => Ok (vint z) | Err e => Err e end
    end
  else if id =? 1 then Ok b                                                                    (* lambda a, b: b *)
  else Err OtherErr.

(* ---- rowgroupby ------------------------------------------------------------------------------------- *)
(* groups of a key-sorted table: (unwrapped key, items); items are whole rows (as tuples) or the selected values *)
Definition rowgroupby_model (hdr : row) (key : val) (value : option val) (rows : list row)
  : res (list (val * list val)) :=
  match asindices hdr key with
  | Err e => Err e
  | Ok [] => Err TypeErr
  | Ok kidx =>
      let gs := groupby (getkey kidx) rows in
      match value with
      | None => Ok (map (fun g => (fst g, map (fun r => VSeq false r) (snd g))) gs)
      | Some v =>
          match asindices hdr v with
          | Err e => Err e
          | Ok [] => Err TypeErr
          | Ok vidx =>
              match mapM (fun g => match all_some (map (raw_getkey vidx) (snd g)) with
                                   | Some vs => Ok (fst g, vs)
                                   | None => Err IndexErr
                                   end) gs with
              | Ok l => Ok l
              | Err e => Err e
              end
          end
      end
  end.

(* map a (possibly failing) function over groups, keeping what was delivered before the failure *)
Fixpoint gen_map {A} (f : A -> res row) (l : list A) : list row * option exn :=
  match l with
  | [] => ([], None)
  | x :: t => match f x with
              | Err e => ([], Some e)
              | Ok r => let '(out, e) := gen_map f t in (r :: out, e)
              end
  end.

Definition key_cells (key : val) (k : val) : row :=
  match key with
  | VSeq _ _ => match k with VSeq _ l => l | x => [x] end     (* tuple(k) *)
  | _ => [k]
  end.

Definition sorted_unless (presorted : bool) (bs : option nat) (key : val) (t : table) : gen :=
  if presorted then (t, None) else sort_model bs false (Some key) t.

(* ---- aggregate(table, key, aggregation=<callable>, value) ------------------------------------------- *)
Definition simple_aggregate_model (key : val) (agg : Z) (value : option val) (field : val)
           (presorted : bool) (bs : option nat) (t : table) : gen :=
  (* special cases as written *)
  let key := match key with VSeq _ [k] => k | k => k end in
  let agg := if (agg =? 0) && negb (is_none key) then 8 else agg in
  let outhdr := match key with
                | VSeq _ ks => ks ++ [field]
                | VNone => [field]
                | k => [k; field]
                end in
  match key with
  | VNone =>
      (* no sorting; whole table *)
      if agg =? 0 then ([outhdr; [vint (zlen (tl t))]], None)
      else match itervalues_model VNone (match value with Some v => v | None => VNone end) t with
           | Err e => ([outhdr], Some e)
           | Ok vs => match apply_agg agg false vs with
                      | Ok a => ([outhdr; [a]], None)
                      | Err e => ([outhdr], Some e)
                      end
           end
  | _ =>
      match sorted_unless presorted bs key t with
      | (src, Some e) => ([outhdr], Some e)
      | ([], None) => match asindices [] key with Err e => ([outhdr], Some e) | Ok _ => ([outhdr], None) end
      | (hdr :: rows, None) =>
          match rowgroupby_model hdr key value rows with
          | Err e => ([outhdr], Some e)
          | Ok gs =>
              let '(out, e) := gen_map (fun g => match apply_agg agg false (snd g) with
                                                 | Ok a => Ok (key_cells key (fst g) ++ [a])
                                                 | Err e => Err e
                                                 end) gs in
              (outhdr :: out, e)
          end
      end
  end.

(* ---- aggregate(table, key, aggregation=<dict/list/None>) -------------------------------------------- *)
(* normalisation of one aggregator, as in itermultiaggregate: (srcfld | None, aggfun id) *)
Definition normalise_agg (agg : val) : res (option val * Z) :=
  match fn_id agg with
  | Some f => Ok (None, f)
  | None =>
      if is_string agg then Ok (Some agg, 1)
      else match agg with
           | VSeq _ [a] => match fn_id a with
                           | Some f => Ok (None, f)
                           | None => if is_string a then Ok (Some a, 1) else Err ArgumentErr
                           end
           | VSeq _ [src; f] => match fn_id f with Some fid => Ok (Some src, fid) | None => Err TypeErr end
           | VSeq _ _ => Err ArgumentErr
           | _ => Err TypeErr                  (* len() of a non-sequence *)
           end
  end.

Definition agg_one (hdr : row) (rows : list row) (spec : option val * Z) : res val :=
  match spec with
  | (None, f) => apply_agg f true (map (fun r => VSeq false r) rows)
  | (Some (VSeq _ srcs), f) =>
      match all_some (map (fun s => py_index s hdr) srcs) with
      | None => Err ValueErr
      | Some idxs => match all_some (map (raw_getkey idxs) rows) with
                     | Some vs => apply_agg f false vs
                     | None => Err IndexErr
                     end
      end
  | (Some src, f) =>
      match py_index src hdr with
      | None => Err ValueErr
      | Some i => match all_some (map (fun r => py_nth r i) rows) with
                  | Some vs => apply_agg f false vs
                  | None => Err IndexErr
                  end
      end
  end.

Fixpoint agg_all (hdr : row) (rows : list row) (specs : list (option val * Z)) : res row :=
  match specs with
  | [] => Ok []
  | s :: t => match agg_one hdr rows s with
              | Err e => Err e
              | Ok v => match agg_all hdr rows t with Ok r => Ok (v :: r) | Err e => Err e end
              end
  end.

(* aggregation given as an ordered list of (outfld, aggregator) *)
Definition multi_aggregate_model (key0 : val) (aggs : list (val * val)) (presorted : bool) (bs : option nat)
           (t : table) : gen :=
  (* MultiAggregateView sorts with the key as given; itermultiaggregate unwraps a one-element key tuple *)
  let key := match key0 with VSeq _ [k] => k | k => k end in
  let src := match key0 with VNone => (t, None) | _ => sorted_unless presorted bs key0 t end in
  match src with
  | ([], None) => ([], Some StopIterLeak)
  | ([], Some e) => ([], Some e)
  | (hdr :: rows, serr) =>
      match mapM (fun a => normalise_agg (snd a)) aggs with
      | Err e => ([], Some e)
      | Ok specs =>
          let outhdr := match key with VSeq _ ks => ks | VNone => [] | k => [k] end ++ map fst aggs in
          match serr with
          | Some e => ([outhdr], Some e)
          | None =>
              match key with
              | VNone =>
                  (* one group under lambda x: None -- no group at all when there are no rows *)
                  match rows with
                  | [] => ([outhdr], None)
                  | _ => match agg_all hdr rows specs with
                         | Ok r => ([outhdr; r], None)
                         | Err e => ([outhdr], Some e)
                         end
                  end
              | _ =>
                  match asindices hdr key with
                  | Err e => ([outhdr], Some e)
                  | Ok [] => ([outhdr], Some TypeErr)
                  | Ok kidx =>
                      let '(out, e) := gen_map (fun g => match agg_all hdr (snd g) specs with
                                                         | Ok r => Ok (key_cells key (fst g) ++ r)
                                                         | Err e => Err e
                                                         end) (groupby (getkey kidx) rows) in
                      (outhdr :: out, e)
                  end
              end
          end
      end
  end.

(* ---- rowreduce / groupselect* ------------------------------------------------------------------------ *)
Definition rowreduce_core (key : val) (reducer : Z) (header : option row) (src : gen) : gen :=
  match src with
  | ([], None) => match header with Some h => ([h], None) | None => ([], Some StopIterLeak) end
  | ([], Some e) => ([], Some e)
  | (hdr :: rows, serr) =>
      (* with header=None the source header is peeked and pushed back; otherwise the source's first row is its header *)
      let outhdr := match header with Some h => h | None => hdr end in
      match serr with
      | Some e => ([outhdr], Some e)
      | None =>
          match asindices hdr key with
          | Err e => ([outhdr], Some e)
          | Ok [] => ([outhdr], Some TypeErr)
          | Ok kidx =>
              let '(out, e) := gen_map (fun g => apply_reducer reducer (fst g) (snd g)) (groupby (getkey kidx) rows) in
              (outhdr :: out, e)
          end
      end
  end.

Definition rowreduce_model (key : val) (reducer : Z) (header : option row) (presorted : bool) (bs : option nat)
           (t : table) : gen :=
  rowreduce_core key reducer header (sorted_unless presorted bs key t).

(* groupselectmin/max = groupselectfirst(sort(table, value, reverse), key, presorted, ...) *)
Definition groupselect_model (which : Z) (key : val) (value : val) (presorted : bool) (bs : option nat) (t : table) : gen :=
  if which =? 0 then rowreduce_model key 1 None presorted bs t            (* first *)
  else if which =? 1 then rowreduce_model key 2 None presorted bs t       (* last *)
  else
    let inner := sort_model None (which =? 3) (Some value) t in          (* 2 = min, 3 = max *)
    match inner with
    | (it, None) => rowreduce_model key 1 None false bs it           (* always re-sorted by key, whatever `presorted` says *)
    | (it, Some e) =>
        (* the inner sort fails when iterated by the outer sort / by rowreduce *)
        match it with h :: _ => if presorted then ([h], Some e) else ([h], Some e) | [] => ([], Some e) end
    end.

(* ---- mergeduplicates ---------------------------------------------------------------------------------- *)
Definition conflict_val (vals : list val) : val := VSeq false (VStr (zs "!conflict") :: vals).

Definition mergeduplicates_model (key0 : val) (missing : val) (presorted : bool) (bs : option nat) (t : table) : gen :=
  let key := match key0 with VSeq _ [k] => k | k => k end in
  match sorted_unless presorted bs key0 t with
  | ([], None) => ([], Some StopIterLeak)
  | ([], Some e) => ([], Some e)
  | (hdr :: rows, serr) =>
      let flds := map hdr_text hdr in
      let keyl := match key with VStr _ => [key] | VSeq _ l => l | k => [k] end in
      let valflds := filter (fun f => negb (py_in f keyl)) flds in
      match all_some (map (fun f => py_index f flds) valflds) with
      | None => ([], Some ValueErr)
      | Some vidx =>
          let outhdr := keyl ++ valflds in
          match serr with
          | Some e => ([outhdr], Some e)
          | None =>
              match asindices hdr key with
              | Err e => ([outhdr], Some e)
              | Ok [] => ([outhdr], Some TypeErr)
              | Ok kidx =>
                  let norm := fun (grp : list row) (i : Z) =>
                    let vs := dedup_vals [] (flat_map (fun r => match py_nth r i with
                                                                | Some v => if (i <? zlen r) && negb (py_eq v missing) then [v] else []
                                                                | None => []
                                                                end) grp) in
                    match vs with [] => missing | [x] => x | _ => conflict_val vs end in
                  (outhdr :: map (fun g => (match key with VStr _ => [fst g] | _ => key_cells (VSeq false []) (fst g) end)
                                           ++ map (norm (snd g)) vidx)
                                 (groupby (getkey kidx) rows), None)
              end
          end
      end
  end.

(* ---- fold --------------------------------------------------------------------------------------------- *)
Fixpoint reduce_vals (f : Z) (acc : val) (l : list val) : res val :=
  match l with
  | [] => Ok acc
  | x :: t => match apply_fold2 f acc x with Ok a => reduce_vals f a t | Err e => Err e end
  end.

Definition fold_model (key : val) (f : Z) (value : option val) (presorted : bool) (bs : option nat) (t : table) : gen :=
  let outhdr := [VStr (zs "key"); VStr (zs "value")] in
  match sorted_unless presorted bs key t with
  | (_, Some e) => ([outhdr], Some e)
  | ([], None) => match asindices [] key with Err e => ([outhdr], Some e) | Ok _ => ([outhdr], None) end
  | (hdr :: rows, None) =>
      match rowgroupby_model hdr key value rows with
      | Err e => ([outhdr], Some e)
      | Ok gs =>
          let '(out, e) := gen_map (fun g => match snd g with
                                             | [] => Err TypeErr
                                             | x :: rest => match reduce_vals f x rest with
                                                            | Ok v => Ok [fst g; v]
                                                            | Err e => Err e
                                                            end
                                             end) gs in
          (outhdr :: out, e)
      end
  end.

(* ---- valuecounter / valuecounts ------------------------------------------------------------------------ *)
Fixpoint counter_add (c : list (val * Z)) (v : val) : list (val * Z) :=
  match c with
  | [] => [(v, 1)]
  | (k, n) :: t => if py_eq k v then (k, n + 1) :: t else (k, n) :: counter_add t v
  end.

(* valuecounts without the float frequency column: (value cells..., count), most common first (stable) *)
Definition valuecounts_model (fields : list val) (missing : val) (t : table) : gen :=
  let outhdr := fields ++ [VStr (zs "count")] in
  let field := match fields with [f] => f | fs => VSeq false fs end in
  match itervalues_model missing field t with
  | Err e => ([outhdr], Some e)
  | Ok vs =>
      let c := fold_left counter_add vs [] in
      let sorted := pysort (fun a b : val * Z => snd b <=? snd a) c in
      (outhdr :: map (fun kv => (match fields with [_] => [fst kv] | _ => match fst kv with VSeq _ l => l | x => [x] end end)
                                ++ [vint (snd kv)]) sorted, None)
  end.
