(* Selects.v — model of petl.transform.selects (+ rowslice / head / tail / skip, search / searchcomplement). *)
From Verif Require Import PyVal Rows Enc ComparableGen AsIndicesGen Sort Basics Dedup.
Open Scope Z_scope.

(* Record.__getitem__ : int -> position, field name -> position of its first occurrence; short rows give `missing` *)
Definition record_get (flds : list val) (missing : val) (r : row) (f : val) : res val :=
  let idx := if is_int f then Some (int_of f) else py_index f flds in
  match idx with
  | None => Err KeyErr
  | Some i => Ok (match py_nth r i with Some v => v | None => missing end)
  end.

(* truthiness of a value *)
Definition py_truthy (v : val) : bool :=
  match v with
  | VNone => false
  | VNum _ (Fin q) => negb (Qeq_bool q 0)
  | VNum _ _ => true
  | VBytes l | VStr l => nonempty l
  | VSeq _ l => nonempty l
  | _ => true
  end.

(* isinstance(v, T) for the builtin types used by the harness *)
Definition py_isinstance (v : val) (tname : list Z) : bool :=
  if zl_eqb tname (zs "int") then match v with VNum KInt _ | VNum KBool _ => true | _ => false end
  else if zl_eqb tname (zs "bool") then match v with VNum KBool _ => true | _ => false end
  else if zl_eqb tname (zs "float") then match v with VNum KFloat _ => true | _ => false end
  else if zl_eqb tname (zs "str") then match v with VStr _ => true | _ => false end
  else if zl_eqb tname (zs "bytes") then match v with VBytes _ => true | _ => false end
  else if zl_eqb tname (zs "tuple") then match v with VSeq false _ => true | _ => false end
  else if zl_eqb tname (zs "NoneType") then is_none v
  else false.

(* `x in s` for a str s and str x (substring), or a sequence s (== membership) *)
Fixpoint is_prefix_z (p l : list Z) : bool :=
  match p, l with
  | [], _ => true
  | _ :: _, [] => false
  | a :: p', b :: l' => (a =? b) && is_prefix_z p' l'
  end.
Fixpoint substr_z (p l : list Z) : bool :=
  is_prefix_z p l || match l with [] => false | _ :: t => substr_z p t end.
Definition py_contains (container x : val) : res bool :=
  match container, x with
  | VStr s, VStr p => Ok (substr_z p s)
  | VStr _, _ => Err TypeErr
  | VBytes s, VBytes p => Ok (substr_z p s)
  | VSeq _ l, _ => Ok (py_in x l)
  | _, _ => Err TypeErr
  end.

(* value predicates of the selectors; references wrapped in Comparable by the selector are marked (C) *)
Inductive vpred :=
| PEq (c : val) | PNe (c : val)                                   (* operator.eq / ne, raw *)
| PLt (c : val) | PLe (c : val) | PGt (c : val) | PGe (c : val)   (* v op Comparable(c): resolved by reflection *)
| PRangeOpenLeft (a b : val) | PRangeOpenRight (a b : val) | PRangeOpen (a b : val) | PRangeClosed (a b : val)
| PIn (l : val) | PNotIn (l : val) | PContains (c : val)
| PIsNone | PIsNotNone | PIsInstance (t : list Z) | PTrue | PFalse
| PUser (id : Z).

Definition eval_vpred (p : vpred) (v : val) : res bool :=
  match p with
  | PEq c => Ok (py_eq v c)
  | PNe c => Ok (negb (py_eq v c))
  | PLt c => Ok (cgt c v)            (* v < C(c)   ->  C(c).__gt__(v) *)
  | PLe c => Ok (cge c v)            (* v <= C(c)  ->  C(c).__ge__(v) *)
  | PGt c => Ok (clt c v)            (* v > C(c)   ->  C(c).__lt__(v) *)
  | PGe c => Ok (cle c v)            (* v >= C(c)  ->  C(c).__le__(v) *)
  | PRangeOpenLeft a b => Ok (cle a v && cgt b v)        (* minv <= v < maxv *)
  | PRangeOpenRight a b => Ok (clt a v && cge b v)       (* minv < v <= maxv *)
  | PRangeOpen a b => Ok (cle a v && cge b v)            (* minv <= v <= maxv *)
  | PRangeClosed a b => Ok (clt a v && clt v b)          (* minv < Comparable(v) < maxv *)
  | PIn l => py_contains l v
  | PNotIn l => match py_contains l v with Ok b => Ok (negb b) | Err e => Err e end
  | PContains c => py_contains v c
  | PIsNone => Ok (is_none v)
  | PIsNotNone => Ok (negb (is_none v))
  | PIsInstance t => Ok (py_isinstance v t)
  | PTrue => Ok (py_truthy v)
  | PFalse => Ok (negb (py_truthy v))
  | PUser id =>
      if id =? 0 then match v with VNum _ (Fin q) => Ok (Qle_bool 2 q) | VNum _ PInf => Ok true | VNum _ NInf => Ok false
                                   | _ => Err TypeErr end                       (* lambda v: v >= 2 *)
      else if id =? 1 then Ok (is_none v)                                         (* lambda v: v is None *)
      else if id =? 2 then Err (UserErr 7)                                        (* always raises *)
      else if id =? 3 then Ok (py_truthy v)                                       (* lambda v: v  (not a bool) *)
      else Err OtherErr
  end.

(* row predicates (on a Record) *)
Inductive rpred := RLen (n : Z) | RField (f : val) (p : vpred).
Definition eval_rpred (flds : list val) (missing : val) (p : rpred) (r : row) : res bool :=
  match p with
  | RLen n => Ok (zlen r =? n)
  | RField f vp => match record_get flds missing r f with Ok v => eval_vpred vp v | Err e => Err e end
  end.

Fixpoint filter_gen (p : row -> res bool) (complement : bool) (rows : list row) : list row * option exn :=
  match rows with
  | [] => ([], None)
  | r :: t => match p r with
              | Err e => ([], Some e)
              | Ok b => let '(out, e) := filter_gen p complement t in
                        ((if Bool.eqb b complement then [] else [r]) ++ out, e)
              end
  end.

(* iterfieldselect *)
Definition fieldselect_model (field : val) (p : vpred) (complement : bool) (missing : val) (t : table) : gen :=
  let '(hdr, rows, yielded) := match t with [] => ([], [], []) | h :: r => (h, r, [h]) end in
  match asindices hdr field with
  | Err e => (yielded, Some e)
  | Ok [] => (yielded, Some TypeErr)
  | Ok idx =>
      let getv := fun r => match raw_getkey idx r with Some v => v | None => missing end in
      let '(out, e) := filter_gen (fun r => eval_vpred p (getv r)) complement rows in (yielded ++ out, e)
  end.

(* iterrowselect *)
Definition rowselect_model (p : rpred) (complement : bool) (missing : val) (t : table) : gen :=
  match t with
  | [] => ([], None)
  | hdr :: rows =>
      let '(out, e) := filter_gen (eval_rpred (map hdr_text hdr) missing p) complement rows in (hdr :: out, e)
  end.

(* ---- positional selection ---------------------------------------------------------------------------------- *)
(* itertools.islice(it, start, stop, step) on a list; None = ValueError (negative or zero arguments) *)
Fixpoint every_nth (step : nat) (k : nat) (l : list row) : list row :=
  match l with
  | [] => []
  | x :: t => match k with
              | O => x :: every_nth step (Nat.pred step) t
              | Datatypes.S k' => every_nth step k' t
              end
  end.

Definition islice_model (start stop step : option Z) (l : list row) : res (list row) :=
  let st := match start with Some s => s | None => 0 end in
  let sp := match step with Some s => s | None => 1 end in
  if (st <? 0) || (sp <? 1) || (match stop with Some s => s <? 0 | None => false end) then Err ValueErr
  else
    let after := skipn (Z.to_nat st) l in
    let upto := match stop with
                | Some s => firstn (Z.to_nat (s - st)) after
                | None => after
                end in
    Ok (every_nth (Z.to_nat sp) O upto).

(* rowslice( *sliceargs ): 1 arg = stop; 2 = start, stop; 3 = start, stop, step *)
Definition rowslice_model (args : list (option Z)) (t : table) : gen :=
  match t with
  | [] => ([], None)
  | hdr :: rows =>
      let r := match args with
               | [] => islice_model None None None rows
               | [stop] => islice_model None stop None rows
               | [start; stop] => islice_model start stop None rows
               | [start; stop; step] => islice_model start stop step rows
               | _ => Err TypeErr
               end in
      match r with Ok out => (hdr :: out, None) | Err e => ([hdr], Some e) end
  end.

(* itertail: cache = deque(); for row in it: cache.append(row); if len(cache) > n: cache.popleft() *)
Fixpoint tail_loop (n : Z) (cache : list row) (rows : list row) : list row :=
  match rows with
  | [] => cache
  | r :: t => let c := cache ++ [r] in tail_loop n (if n <? zlen c then tl c else c) t
  end.

Definition tail_model (n : Z) (t : table) : gen :=
  match t with
  | [] => ([], None)
  | hdr :: rows => (hdr :: tail_loop n [] rows, None)
  end.

(* skip(table, n): the first n rows are dropped, the next one is the header *)
Definition skip_model (n : Z) (t : table) : gen :=
  if n <? 0 then ([], Some ValueErr) else (skipn (Z.to_nat n) t, None).

(* ---- search / searchcomplement with a literal (regex-metacharacter-free) pattern ------------------------- *)
Definition text_matches (pattern : list Z) (v : val) : res bool :=
  match py_str v with Some s => Ok (substr_z pattern s) | None => Err OtherErr end.

Fixpoint any_res (f : val -> res bool) (l : list val) : res bool :=
  match l with
  | [] => Ok false
  | x :: t => match f x with Err e => Err e | Ok true => Ok true | Ok false => any_res f t end
  end.

Definition search_model (pattern : list Z) (field : option val) (complement : bool) (t : table) : gen :=
  match t with
  | [] => ([], None)
  | hdr :: rows =>
      match field with
      | None => let '(out, e) := filter_gen (fun r => any_res (text_matches pattern) r) complement rows in (hdr :: out, e)
      | Some f =>
          match asindices hdr f with
          | Err e => ([hdr], Some e)
          | Ok [] => ([hdr], Some TypeErr)
          | Ok [i] =>
              let '(out, e) := filter_gen (fun r => match py_nth r i with
                                                    | Some v => text_matches pattern v
                                                    | None => Err IndexErr end) complement rows in (hdr :: out, e)
          | Ok idx =>
              let '(out, e) := filter_gen (fun r => match all_some (map (py_nth r) idx) with
                                                    | Some vs => any_res (text_matches pattern) vs
                                                    | None => Err IndexErr end) complement rows in (hdr :: out, e)
          end
      end
  end.
