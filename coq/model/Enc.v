(* Enc.v — encoding of model inputs/outputs as `val`, so that one dispatcher (Dispatch.v) serves the
   extracted runner, the in-Coq re-evaluation and the Python harness with a single value codec. *)
From Verif Require Import PyVal.
Open Scope Z_scope.

Definition vbool (b : bool) : val := VNum KBool (Fin (if b then 1 else 0)%Q).
Definition vint (z : Z) : val := VNum KInt (Fin (inject_Z z)).
Definition vnat (n : nat) : val := vint (Z.of_nat n).
Definition vstr (s : string) : val := VStr (zs s).
Definition vtuple (l : list val) : val := VSeq false l.
Definition vlist (l : list val) : val := VSeq true l.

Definition exn_name (e : exn) : string :=
  match e with
  | TypeErr => "TypeError" | IndexErr => "IndexError" | KeyErr => "KeyError" | ValueErr => "ValueError"
  | FieldSelectionErr => "FieldSelectionError" | DuplicateKeyErr => "DuplicateKeyError"
  | ArgumentErr => "ArgumentError" | StopIterLeak => "RuntimeError" | StopIter => "StopIteration" | AttributeErr => "AttributeError" | ZeroDivErr => "ZeroDivisionError"
  | AssertionErr => "AssertionError" | UserErr _ => "UserError" | OtherErr => "Exception"
  end%string.

Definition enc_exn (e : exn) : val :=
  match e with
  | UserErr t => vtuple [vstr "!err"; vstr "UserError"; vint t]
  | _ => vtuple [vstr "!err"; vstr (exn_name e)]
  end.
Definition bad_input : val := vtuple [vstr "!bad"].

Definition enc_row (r : row) : val := vtuple r.
Definition enc_table (t : table) : val := vlist (map enc_row t).
Definition enc_res {A} (f : A -> val) (r : res A) : val :=
  match r with Ok a => f a | Err e => enc_exn e end.
(* rows delivered before an exception are part of the observation *)
Definition enc_gen (g : gen) : val :=
  match g with
  | (rows, None) => enc_table rows
  | (rows, Some e) => vtuple [vstr "!partial"; enc_table rows; enc_exn e]
  end.

Definition dec_seq (v : val) : option (list val) := match v with VSeq _ l => Some l | _ => None end.
Definition dec_row (v : val) : option row := dec_seq v.
Fixpoint dec_all {A} (f : val -> option A) (l : list val) : option (list A) :=
  match l with
  | [] => Some []
  | x :: xs => match f x, dec_all f xs with Some a, Some r => Some (a :: r) | _, _ => None end
  end.
Definition dec_table (v : val) : option table :=
  match v with VSeq _ l => dec_all dec_row l | _ => None end.
Definition dec_bool (v : val) : option bool :=
  match v with VNum _ (Fin q) => Some (negb (Qeq_bool q 0)) | _ => None end.
Definition dec_Z (v : val) : option Z :=
  match v with VNum _ (Fin q) => Some (Qnum q / Zpos (Qden q)) | _ => None end.
Definition dec_nat (v : val) : option nat :=
  match dec_Z v with Some z => if z <? 0 then None else Some (Z.to_nat z) | None => None end.
(* None -> None, otherwise Some *)
Definition dec_opt {A} (f : val -> option A) (v : val) : option (option A) :=
  match v with VNone => Some None | _ => match f v with Some a => Some (Some a) | None => None end end.

Definition zs_eqb (a : list Z) (s : string) : bool := zl_eqb a (zs s).
