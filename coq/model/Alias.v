(* Alias.v — who may be mutated: a flow-insensitive alias-class analysis of generator bodies, and the heap it speaks about.

   A function body is abstracted to the SET of its atomic statements (regenerated from source, gen/MutGen.v):
     AFresh x     x is bound to a newly allocated mutable object (list(...), [...], a comprehension, dict(), deque() ...)
     ASrc x       x is bound to an object that belongs to the caller: a row or the header pulled from a source, a cell of
                  such a row, a parameter
     AExt x       x is bound to the result of a call or an attribute the analysis knows nothing about
     ACopy x y    x = y
     AMut x       the object x refers to is mutated in place (x.append / extend / insert / pop / sort ..., x[i] = ...,
                  del x[i], x += ...)
     AYield x     the object x refers to is delivered to the consumer
   Control flow is dropped altogether: an execution is ANY finite sequence of these statements, in any order, any number of
   times, with any choice of which foreign object a source / call hands over.  The check below is therefore sound for
   every path the real code could possibly take. *)
From Coq Require Import List Arith Bool.
Import ListNotations.

Definition var := nat.
Inductive atom :=
| AFresh (x : var) | ASrc (x : var) | AExt (x : var) | ACopy (x y : var) | AMut (x : var) | AYield (x : var).

Inductive owner := Own | Src | Ext.
Record obj := { o_owner : owner; o_tag : nat; o_yielded : bool }.
Record state := {
  store : var -> option nat;        (* variable -> location *)
  heap : list obj;
  foreign_mutated : bool;           (* an object of the caller (or of unknown origin) was mutated *)
  yielded_mutated : bool            (* an object was mutated after it had been delivered *)
}.

Definition upd (s : var -> option nat) (x : var) (v : option nat) : var -> option nat :=
  fun y => if Nat.eqb y x then v else s y.

Definition owner_eqb (a b : owner) : bool :=
  match a, b with Own, Own | Src, Src | Ext, Ext => true | _, _ => false end.

(* bind x to the foreign object at location c if there is one of that owner there, else to a new one *)
Definition bind_foreign (w : owner) (x : var) (c : nat) (s : state) : state :=
  match nth_error (heap s) c with
  | Some o => if owner_eqb (o_owner o) w
              then {| store := upd (store s) x (Some c); heap := heap s; foreign_mutated := foreign_mutated s;
                      yielded_mutated := yielded_mutated s |}
              else {| store := upd (store s) x (Some (length (heap s)));
                      heap := heap s ++ [{| o_owner := w; o_tag := 0; o_yielded := false |}];
                      foreign_mutated := foreign_mutated s; yielded_mutated := yielded_mutated s |}
  | None => {| store := upd (store s) x (Some (length (heap s)));
               heap := heap s ++ [{| o_owner := w; o_tag := 0; o_yielded := false |}];
               foreign_mutated := foreign_mutated s; yielded_mutated := yielded_mutated s |}
  end.

Fixpoint set_yielded (h : list obj) (l : nat) : list obj :=
  match h, l with
  | [], _ => []
  | o :: t, O => {| o_owner := o_owner o; o_tag := o_tag o; o_yielded := true |} :: t
  | o :: t, S l' => o :: set_yielded t l'
  end.

Section Sem.
  Variable comp : var -> nat.       (* the alias class of each variable (a ghost tag on the objects it allocates) *)

  (* one statement; c resolves the non-determinism of ASrc / AExt *)
  Definition astep (s : state) (a : atom) (c : nat) : state :=
    match a with
    | AFresh x => {| store := upd (store s) x (Some (length (heap s)));
                     heap := heap s ++ [{| o_owner := Own; o_tag := comp x; o_yielded := false |}];
                     foreign_mutated := foreign_mutated s; yielded_mutated := yielded_mutated s |}
    | ASrc x => bind_foreign Src x c s
    | AExt x => bind_foreign Ext x c s
    | ACopy x y => {| store := upd (store s) x (store s y); heap := heap s; foreign_mutated := foreign_mutated s;
                      yielded_mutated := yielded_mutated s |}
    | AMut x =>
        match store s x with
        | Some l => match nth_error (heap s) l with
                    | Some o => {| store := store s; heap := heap s;
                                   foreign_mutated := foreign_mutated s || negb (owner_eqb (o_owner o) Own);
                                   yielded_mutated := yielded_mutated s || o_yielded o |}
                    | None => s
                    end
        | None => s
        end
    | AYield x =>
        match store s x with
        | Some l => {| store := store s; heap := set_yielded (heap s) l; foreign_mutated := foreign_mutated s;
                       yielded_mutated := yielded_mutated s |}
        | None => s
        end
    end.

  Fixpoint arun (w : list (atom * nat)) (s : state) : state :=
    match w with
    | [] => s
    | (a, c) :: t => arun t (astep s a c)
    end.
End Sem.

Definition init_state : state :=
  {| store := fun _ => None; heap := []; foreign_mutated := false; yielded_mutated := false |}.

(* ---- the check ------------------------------------------------------------------------------------------------------------ *)
Definition defines_foreign (a : atom) : option var :=
  match a with ASrc x | AExt x => Some x | _ => None end.

Section Check.
  Variable comp : var -> nat.
  Variable prog : list atom.

  (* a class is clean when no variable of it is ever bound to a foreign object *)
  Definition clean (c : nat) : bool :=
    forallb (fun a => match defines_foreign a with Some x => negb (Nat.eqb (comp x) c) | None => true end) prog.
  Definition copies_ok : bool :=
    forallb (fun a => match a with ACopy x y => Nat.eqb (comp x) (comp y) | _ => true end) prog.
  Definition muts_clean : bool :=
    forallb (fun a => match a with AMut x => clean (comp x) | _ => true end) prog.
  Definition mutated_class (c : nat) : bool :=
    existsb (fun a => match a with AMut x => Nat.eqb (comp x) c | _ => false end) prog.
  Definition yields_ok : bool :=
    forallb (fun a => match a with AYield x => negb (mutated_class (comp x)) | _ => true end) prog.

  Definition imm_ok : bool := copies_ok && muts_clean && yields_ok.
End Check.

(* ---- looking up a regenerated function ---------------------------------------------------------------------------------- *)
From Coq Require Import String.
Fixpoint comp_of (l : list (nat * nat)) (x : var) : nat :=
  match l with
  | [] => 0
  | (v, c) :: t => if Nat.eqb v x then c else comp_of t x
  end.
Fixpoint lookup_prog (name : string) (l : list (string * list (nat * nat) * list atom)) : option (list (nat * nat) * list atom) :=
  match l with
  | [] => None
  | (n, c, a) :: t => if String.eqb n name then Some (c, a) else lookup_prog name t
  end.
Definition all_immutable (names : list string) (l : list (string * list (nat * nat) * list atom)) : bool :=
  forallb (fun n => match lookup_prog n l with Some (c, a) => imm_ok (comp_of c) a | None => false end) names.
Definition all_hold (cls : (var -> nat) -> list atom -> bool) (names : list string)
                    (l : list (string * list (nat * nat) * list atom)) : bool :=
  forallb (fun n => match lookup_prog n l with Some (c, a) => cls (comp_of c) a | None => false end) names.
