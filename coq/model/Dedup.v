(* Dedup.v — model of petl.transform.dedup: the previous/current run-detection loops as written
   (raw operator.itemgetter keys compared with ==), over the key-sorted stream. *)
From Verif Require Import PyVal Rows ComparableGen AsIndicesGen Sort.
Open Scope Z_scope.

(* operator.itemgetter( *indices )(row): None = IndexError *)
Definition raw_getkey (indices : list Z) (r : row) : option val :=
  match indices with
  | [i] => py_nth r i
  | _ => match all_some (map (py_nth r) indices) with Some l => Some (VSeq false l) | None => None end
  end.

Section Loops.
  Variable gk : row -> option val.

  (* iterduplicates: state = (previous, previous_yielded) *)
  Fixpoint dup_loop (prev : row) (py : bool) (rows : list row) : list row * option exn :=
    match rows with
    | [] => ([], None)
    | r :: t =>
        match gk prev, gk r with
        | Some kp, Some kc =>
            if py_eq kp kc then
              let '(out, e) := dup_loop r true t in ((if py then [] else [prev]) ++ r :: out, e)
            else dup_loop r false t
        | _, _ => ([], Some IndexErr)
        end
    end.
  Definition iterduplicates_data (rows : list row) : list row * option exn :=
    match rows with [] => ([], None) | r0 :: t => dup_loop r0 false t end.

  (* iterunique: state = (prev, prev_key, prev_comp_ne) *)
  Fixpoint uniq_loop (prev : row) (pk : val) (pne : bool) (rows : list row) : list row * option exn :=
    match rows with
    | [] => (if pne then [prev] else [], None)
    | c :: t =>
        match gk c with
        | None => ([], Some IndexErr)
        | Some ck =>
            let cne := negb (py_eq ck pk) in
            let '(out, e) := uniq_loop c ck cne t in
            ((if pne && cne then [prev] else []) ++ out, e)
        end
    end.
  Definition iterunique_data (rows : list row) : list row * option exn :=
    match rows with
    | [] => ([], None)
    | r0 :: t => match gk r0 with None => ([], Some IndexErr) | Some k0 => uniq_loop r0 k0 true t end
    end.

  (* DistinctView without count: previous_keys sentinel INIT *)
  Fixpoint distinct_loop (pk : option val) (rows : list row) : list row * option exn :=
    match rows with
    | [] => ([], None)
    | r :: t =>
        match gk r with
        | None => ([], Some IndexErr)
        | Some k =>
            let fresh := match pk with None => true | Some p => negb (py_eq k p) end in
            let '(out, e) := distinct_loop (Some k) t in
            ((if fresh then [r] else []) ++ out, e)
        end
    end.

  (* DistinctView with count: (previous, n_dup); the final yield happens even when no row was seen *)
  Fixpoint distinct_count_loop (prev : row) (n : Z) (rows : list row) : list row * option exn :=
    match rows with
    | [] => ([prev ++ [VNum KInt (Fin (inject_Z n))]], None)
    | r :: t =>
        match gk prev, gk r with
        | Some kp, Some kc =>
            if py_eq kp kc then distinct_count_loop prev (n + 1) t
            else let '(out, e) := distinct_count_loop r 1 t in
                 ((prev ++ [VNum KInt (Fin (inject_Z n))]) :: out, e)
        | _, _ => ([], Some IndexErr)
        end
    end.
  Definition distinct_count_data (rows : list row) : list row * option exn :=
    match rows with
    | [] => ([], None)                         (* guarded since "fix: distinct(count=...)" *)
    | r0 :: t => distinct_count_loop r0 1 t
    end.
End Loops.

(* conflicts *)
Definition truthy_list (o : option (list val)) : option (list val) :=
  match o with Some [] => None | x => x end.

Definition field_considered (exclude include : option (list val)) (f : val) : bool :=
  match exclude, include with
  | Some ex, _ => negb (py_in f ex)          (* exclude overrides include *)
  | None, Some inc => py_in f inc
  | None, None => true
  end.

Fixpoint has_conflict (missing : val) (exclude include : option (list val)) (p r : row) (flds : list val) : bool :=
  match p, r, flds with
  | x :: p', y :: r', f :: fl' =>
      if field_considered exclude include f && negb (py_eq x missing || py_eq y missing) && negb (py_eq x y)
      then true else has_conflict missing exclude include p' r' fl'
  | _, _, _ => false
  end.

Section Conflicts.
  Variable gk : row -> option val.
  Variables (missing : val) (exclude include : option (list val)) (flds : list val).
  Fixpoint conflicts_loop (prev : row) (py : bool) (rows : list row) : list row * option exn :=
    match rows with
    | [] => ([], None)
    | r :: t =>
        match gk prev, gk r with
        | Some kp, Some kc =>
            if py_eq kp kc then
              if has_conflict missing exclude include prev r flds then
                let '(out, e) := conflicts_loop r true t in ((if py then [] else [prev]) ++ r :: out, e)
              else conflicts_loop r py t
            else conflicts_loop r false t
        | _, _ => ([], Some IndexErr)
        end
    end.
End Conflicts.

Inductive dedup_op := OpDuplicates | OpUnique | OpDistinct | OpDistinctCount (name : val)
                    | OpConflicts (missing : val) (exclude include : option (list val)).

(* source stage: sort(source, key, buffersize, ...) unless presorted *)
Definition dedup_source (presorted : bool) (bs : option nat) (key : option val) (t : table) : gen :=
  if presorted then (t, None) else sort_model bs false key t.

Definition glue (hdr : list row) (g : list row * option exn) : gen := (hdr ++ fst g, snd g).

Definition dedup_model (op : dedup_op) (key : option val) (presorted : bool) (bs : option nat) (t : table) : gen :=
  let '(src, serr) := dedup_source presorted bs key t in
  match src with
  | [] =>
      match serr with
      | Some e => ([], Some e)
      | None =>
          match op, key with
          | OpDuplicates, Some k =>
              match asindices [] k with Err e => ([[]], Some e) | Ok [] => ([[]], Some TypeErr) | Ok _ => ([[]], None) end
          | _, _ => ([], None)
          end
      end
  | hdr :: rows =>
      let hdr_out := match op with OpDistinctCount name => hdr ++ [name] | _ => hdr end in
      (* DistinctView resolves the key before yielding the header, the others after *)
      let early := match op with OpDistinct | OpDistinctCount _ => true | _ => false end in
      match key_indices hdr key with
      | Err e => if early then ([], Some e) else ([hdr], Some e)
      | Ok [] => if early then ([], Some TypeErr) else ([hdr], Some TypeErr)
      | Ok idx =>
          match serr with
          | Some e => ([hdr_out], Some e)        (* the sorted source raises when its first data row is pulled *)
          | None =>
              let gk := raw_getkey idx in
              match op with
              | OpDuplicates => glue [hdr] (iterduplicates_data gk rows)
              | OpUnique => glue [hdr] (iterunique_data gk rows)
              | OpDistinct => glue [hdr] (distinct_loop gk None rows)
              | OpDistinctCount name => glue [hdr_out] (distinct_count_data gk rows)
              | OpConflicts missing ex inc =>
                  let ex' := truthy_list ex in
                  let inc' := match ex' with Some _ => None | None => truthy_list inc end in
                  glue [hdr] (match rows with
                              | [] => ([], None)
                              | r0 :: t => conflicts_loop gk missing ex' inc' (map hdr_text hdr) r0 false t
                              end)
              end
          end
      end
  end.

(* isunique(table, field): values via itervalues (short rows give `missing`=None), set membership by == *)
Fixpoint has_dup (seen : list val) (vs : list val) : bool :=
  match vs with
  | [] => false
  | v :: t => if py_in v seen then true else has_dup (v :: seen) t
  end.

Definition itervalues_model (missing : val) (field : val) (t : table) : res (list val) :=
  let '(hdr, rows) := match t with [] => ([], []) | h :: r => (h, r) end in
  match asindices hdr field with
  | Err e => Err e
  | Ok [] => Err AssertionErr
  | Ok [i] => Ok (map (fun r => match py_nth r i with Some v => v | None => missing end) rows)
  | Ok idx => Ok (map (fun r => VSeq false (map (fun i => match py_nth r i with
                                                           | Some v => v
                                                           | None => missing
                                                           end) idx)) rows)
  end.

Definition isunique_model (field : val) (t : table) : res bool :=
  match itervalues_model VNone field t with
  | Err e => Err e
  | Ok vs => Ok (negb (has_dup [] vs))
  end.
