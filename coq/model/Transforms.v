(* Transforms.v — row- and field-level transforms of petl.transform.basics / headers / conversions / fills / maps
   (C12, C19), as written: copy-then-edit of each row, padding / trimming where documented. *)
From Verif Require Import PyVal Rows Enc ComparableGen AsIndicesGen Sort Basics Dedup Joins Selects.
Open Scope Z_scope.

(* list.insert(index, x): negative indices count from the end, out-of-range indices clamp *)
Definition py_insert {A} (l : list A) (i : Z) (x : A) : list A :=
  let n := zlen l in
  let j := if i <? 0 then Z.max 0 (i + n) else Z.min i n in
  firstn (Z.to_nat j) l ++ x :: skipn (Z.to_nat j) l.

(* ---- cutout / movefield / cat / stack / annex ---------------------------------------------------------------- *)
Definition cutout_model (spec : list val) (missing : val) (t : table) : gen :=
  let '(hdr, rows) := match t with [] => ([], []) | h :: r => (h, r) end in
  match asindices hdr (VSeq false spec) with
  | Err e => ([], Some e)
  | Ok out =>
      let indices := filter (fun i => negb (z_in i out)) (zrange (length hdr) 0) in
      match rowgetter indices hdr with
      | None => ([], Some IndexErr)
      | Some ohdr => let '(o, e) := map_rows (cut_row indices missing) rows in (ohdr :: o, e)
      end
  end.

Definition movefield_model (field : val) (index : Z) (missing : val) (t : table) : gen :=
  let '(hdr, rows) := match t with [] => ([], []) | h :: r => (h, r) end in
  let outhdr := py_insert (filter (fun f => negb (py_eq f field)) hdr) index field in
  match asindices hdr (VSeq true (map hdr_text outhdr)) with
  | Err e => ([outhdr], Some e)
  | Ok indices => let '(o, e) := map_rows (cut_row indices missing) rows in (outhdr :: o, e)
  end.

(* itercat *)
Definition cat_model (missing : val) (header : option row) (tables : list table) : gen :=
  let hdrs := map (fun t => match t with h :: _ => h | [] => [] end) tables in
  let outhdr := match header with
                | Some h => h
                | None => match hdrs with [] => [] | h0 :: rest => union_fields h0 (concat rest) end
                end in
  let rows_of := fun (t : table) =>
    match t with
    | [] => []
    | hdr :: rows =>
        map (fun r => map (fun h => match py_index h hdr with
                                    | Some i => match py_nth r i with Some v => v | None => missing end
                                    | None => missing
                                    end) outhdr) rows
    end in
  match tables with
  | [] => ([], Some IndexErr)
  | _ => (outhdr :: flat_map rows_of tables, None)
  end.

(* iterstack: rows of all tables trimmed / padded to the FIRST header *)
Definition stack_model (missing : val) (trim pad : bool) (tables : list table) : gen :=
  match tables with
  | [] => ([], Some IndexErr)
  | t0 :: _ =>
      let hdr := match t0 with h :: _ => h | [] => [] end in
      let n := length hdr in
      let fix_row := fun (r : row) =>
        let r1 := if trim then firstn n r else r in
        if pad && (length r1 <? n)%nat then r1 ++ repeat missing (n - length r1) else r1 in
      (hdr :: flat_map (fun t => map fix_row (tl t)) tables, None)
  end.

(* iterannex: zip_longest of the tables, each row squared up to its own header *)
Fixpoint annex_rows (missing : val) (widths : list nat) (fuel : nat) (rowss : list (list row)) : list row :=
  match fuel with
  | O => []
  | Datatypes.S f =>
      if forallb (fun rs => match rs with [] => true | _ => false end) rowss then []
      else
        concat (map (fun wr => let '(w, rs) := wr in
                               match rs with
                               | [] => repeat missing w
                               | r :: _ => pad_to w missing (firstn w r)
                               end) (combine widths rowss))
        :: annex_rows missing widths f (map (fun rs => tl rs) rowss)
  end.

Definition annex_model (missing : val) (tables : list table) : gen :=
  let hdrs := map (fun t => match t with h :: _ => h | [] => [] end) tables in
  let rowss := map (fun t => tl t) tables in
  let fuel := fold_right (fun rs n => Nat.max (length rs) n) O rowss in
  (concat hdrs :: annex_rows missing (map (@length val) hdrs) fuel rowss, None).

(* ---- addfield / addfields / addcolumn / addrownumbers / addfieldusingcontext --------------------------------- *)
(* value of a new field: a constant, or a function of the record (zoo) *)
Inductive fieldvalue := FConst (v : val) | FFn (id : Z).
Definition apply_rowfn (id : Z) (flds : list val) (r : row) : res val :=
  if id =? 0 then record_get flds VNone r (vint 0)                   (* lambda rec: rec[0] *)
  else if id =? 1 then Ok (vint (zlen r))                            (* lambda rec: len(rec) *)
  else if id =? 2 then record_get flds VNone r (vstr "v")            (* lambda rec: rec['v'] *)
  else if id =? 3 then Err (UserErr 3)
  else Err OtherErr.

Definition addfield_model (field : val) (value : fieldvalue) (index : option Z) (missing : val) (t : table) : gen :=
  let src := stack1 missing t in
  match src with
  | [] => ([], None)
  | hdr :: rows =>
      let idx := match index with Some i => i | None => zlen hdr end in
      let flds := map hdr_text hdr in
      let '(o, e) := map_rows (fun r => match value with
                                        | FConst v => Ok (py_insert r idx v)
                                        | FFn id => match apply_rowfn id flds r with
                                                    | Ok v => Ok (py_insert r idx v)
                                                    | Err e => Err e
                                                    end
                                        end) rows in
      (py_insert hdr idx field :: o, e)
  end.

(* field_defs: (name, value) or (name, value, index); the index of a 2-tuple is the CURRENT header length *)
Definition addfields_model (defs : list (val * fieldvalue * option Z)) (missing : val) (t : table) : gen :=
  let src := stack1 missing t in
  match src with
  | [] => ([], None)
  | hdr :: rows =>
      let flds := map hdr_text hdr in
      let '(outhdr, vis) :=
        fold_left (fun acc d => let '(oh, vi) := acc in
                                let '(name, value, index) := d in
                                let idx := match index with Some i => i | None => zlen oh end in
                                (py_insert oh idx name, vi ++ [(value, idx)])) defs (hdr, []) in
      let '(o, e) := map_rows (fun r =>
        fold_left (fun acc vi => match acc with
                                 | Err e => Err e
                                 | Ok out => match fst vi with
                                             | FConst v => Ok (py_insert out (snd vi) v)
                                             | FFn id => match apply_rowfn id flds r with
                                                         | Ok v => Ok (py_insert out (snd vi) v)
                                                         | Err e => Err e
                                                         end
                                             end
                                 end) vis (Ok r)) rows in
      (outhdr :: o, e)
  end.

(* iteraddcolumn: zip_longest(rows, col, fillvalue=missing); a row == missing becomes [missing] * len(hdr) *)
Fixpoint addcolumn_rows (fuel : nat) (hdrlen : nat) (idx : Z) (missing : val) (rows : list row) (col : list val) : list row :=
  match fuel with
  | O => []
  | Datatypes.S f =>
      match rows, col with
      | [], [] => []
      | r :: rt, c :: ct => py_insert r idx c :: addcolumn_rows f hdrlen idx missing rt ct
      | r :: rt, [] => py_insert r idx missing :: addcolumn_rows f hdrlen idx missing rt []
      | [], c :: ct => py_insert (repeat missing hdrlen) idx c :: addcolumn_rows f hdrlen idx missing [] ct
      end
  end.

Definition addcolumn_model (field : val) (col : list val) (index : option Z) (missing : val) (t : table) : gen :=
  let '(hdr, rows) := match t with [] => ([], []) | h :: r => (h, r) end in
  let idx := match index with Some i => i | None => zlen hdr end in
  (py_insert hdr idx field :: addcolumn_rows (Nat.max (length rows) (length col)) (length hdr) idx missing rows col, None).

Fixpoint number_rows (n step : Z) (rows : list row) : list row :=
  match rows with [] => [] | r :: t => (vint n :: r) :: number_rows (n + step) step t end.
Definition addrownumbers_model (start step : Z) (field : val) (t : table) : gen :=
  let '(hdr, rows) := match t with [] => ([], []) | h :: r => (h, r) end in
  ((field :: hdr) :: number_rows start step rows, None).

(* ---- headers --------------------------------------------------------------------------------------------------- *)
(* iterrename with spec as an association list (dict semantics: later keys override; lookup by ==) *)
Fixpoint assoc_get (k : val) (d : list (val * val)) : option val :=
  match d with [] => None | (k', v) :: t => match assoc_get k t with Some x => Some x | None => if py_eq k' k then Some v else None end end.

Definition rename_model (spec : list (val * val)) (strict : bool) (t : table) : gen :=
  let '(hdr, rows) := match t with [] => ([], []) | h :: r => (h, r) end in
  let flds := map hdr_text hdr in
  let bad := if strict then
               find (fun kv => let x := fst kv in
                               if is_int x then (int_of x <? 0) || (zlen hdr <=? int_of x) else negb (py_in x flds)) spec
             else None in
  match bad with
  | Some _ => ([], Some FieldSelectionErr)
  | None =>
      let outhdr := map (fun '(i, f) => match assoc_get (vint i) spec with
                                        | Some n => n
                                        | None => match assoc_get f spec with Some n => n | None => f end
                                        end) (combine (zrange (length flds) 0) flds) in
      (outhdr :: rows, None)
  end.

Definition setheader_model (header : row) (t : table) : gen := (header :: tl t, None).
Definition extendheader_model (fields : row) (t : table) : gen :=
  ((match t with h :: _ => h | [] => [] end ++ fields) :: tl t, None).
Definition pushheader_model (header : row) (t : table) : gen := (header :: t, None).
Definition prefixheader_model (prefix : val) (suffix : bool) (t : table) : gen :=
  match t with
  | [] => ([], None)
  | hdr :: rows => (map (fun f => if suffix then prefix_field f prefix else prefix_field prefix f) hdr :: rows, None)
  end.

(* sortheader: sorted(hdr) with the NATIVE order of the field names *)
Definition sortheader_model (reverse : bool) (missing : val) (t : table) : gen :=
  match t with
  | [] => ([], None)
  | hdr :: rows =>
      let shdr := pysort (fun a b => match py_lt b a with Some true => false | _ => true end) hdr in
      match asindices hdr (VSeq true shdr) with
      | Err e => ([], Some e)
      | Ok indices => let '(o, e) := map_rows (cut_row indices missing) rows in (shdr :: o, e)
      end
  end.

(* ---- fills ------------------------------------------------------------------------------------------------------ *)
(* iterfilldown (as repaired): state = fill values (a copy of the first row) *)
Fixpoint filldown_rows (fillidx : list Z) (missing : val) (fill : row) (rows : list row) : list row * option exn :=
  match rows with
  | [] => ([], None)
  | r :: t =>
      let step := fold_left (fun acc idx =>
                    match acc with
                    | Err e => Err e
                    | Ok (out, fl) =>
                        match py_nth r idx with
                        | None => Err IndexErr
                        | Some v =>
                            if py_eq v missing then
                              match py_nth fl idx with
                              | Some fv => Ok (set_nth (Z.to_nat (if idx <? 0 then idx + zlen out else idx)) fv out, fl)
                              | None => Err IndexErr
                              end
                            else
                              if (if idx <? 0 then idx + zlen fl else idx) <? zlen fl
                              then Ok (out, set_nth (Z.to_nat (if idx <? 0 then idx + zlen fl else idx)) v fl)
                              else Err IndexErr
                        end
                    end) fillidx (Ok (r, fill)) in
      match step with
      | Err e => ([], Some e)
      | Ok (out, fl) => let '(o, e) := filldown_rows fillidx missing fl t in (out :: o, e)
      end
  end.

Definition filldown_model (fields : list val) (missing : val) (t : table) : gen :=
  match t with
  | [] => ([], None)
  | hdr :: rows =>
      match asindices hdr (VSeq false (match fields with [] => hdr | _ => fields end)) with
      | Err e => ([hdr], Some e)
      | Ok idx =>
          match rows with
          | [] => ([hdr], None)
          | r0 :: rest => let '(o, e) := filldown_rows idx missing r0 rest in (hdr :: r0 :: o, e)
          end
      end
  end.

(* iterfillright: left to right, a missing cell takes its (already filled) left neighbour *)
Fixpoint fillright_row (missing : val) (prev : option val) (r : row) : row :=
  match r with
  | [] => []
  | x :: t =>
      let x' := match prev with
                | Some p => if py_eq x missing && negb (py_eq p missing) then p else x
                | None => x
                end in
      x' :: fillright_row missing (Some x') t
  end.
Definition fillright_model (missing : val) (t : table) : gen :=
  match t with [] => ([], None) | hdr :: rows => (hdr :: map (fillright_row missing None) rows, None) end.
Definition fillleft_model (missing : val) (t : table) : gen :=
  match t with
  | [] => ([], None)
  | hdr :: rows => (hdr :: map (fun r => rev (fillright_row missing None (rev r))) rows, None)
  end.

(* ---- convert (C12) with the failonerror policy (C19) --------------------------------------------------------- *)
Inductive policy := PolFalse | PolTrue | PolInline.

Definition exn_val (e : exn) : val := VSeq false [VStr (zs "!exc"); VStr (zs (exn_name e))].

(* cell converters of the zoo *)
Fixpoint upper_z (l : list Z) : list Z :=
  match l with [] => [] | c :: t => (if (97 <=? c) && (c <=? 122) then c - 32 else c) :: upper_z t end.
Fixpoint digits_val (acc : Z) (l : list Z) : option Z :=
  match l with
  | [] => Some acc
  | c :: t => if (48 <=? c) && (c <=? 57) then digits_val (acc * 10 + (c - 48)) t else None
  end.

Definition apply_conv (id : Z) (v : val) (r : row) : res val :=
  if id =? 0 then match v with VStr s => Ok (VStr (upper_z s)) | _ => Err AttributeErr end          (* 'upper' *)
  else if id =? 1 then                                                                                (* int *)
    match v with
    | VStr (45 :: d :: ds) => match digits_val 0 (d :: ds) with Some z => Ok (vint (- z)) | None => Err ValueErr end
    | VStr (d :: ds) => match digits_val 0 (d :: ds) with Some z => Ok (vint z) | None => Err ValueErr end
    | VStr [] => Err ValueErr
    | VNum KInt x => Ok (VNum KInt x)
    | VNum KBool (Fin q) => Ok (VNum KInt (Fin q))
    | _ => Err TypeErr
    end
  else if id =? 2 then                                                                                (* lambda v: v * 2 *)
    match v with
    | VNum KInt (Fin q) | VNum KBool (Fin q) => Ok (VNum KInt (Fin (q * 2)))
    | VStr s => Ok (VStr (s ++ s))
    | VSeq i l => Ok (VSeq i (l ++ l))
    | _ => Err TypeErr
    end
  else if id =? 3 then                                                                                (* fails on 2 and 'x' *)
    if py_eq v (vint 2) || py_eq v (VStr [120]) then Err (UserErr 3) else Ok (VSeq false [VStr (zs "ok"); v])
  else if id =? 5 then Ok v
  else if id =? 6 then Ok (VSeq false [v; vint (zlen r)])                                           (* pass_row: (v, len(row)) *)
  else if id =? 8 then                                                      (* pass_row: fails on 2 and 'x', else ('ok', v, len(row)) *)
    if py_eq v (vint 2) || py_eq v (VStr [120]) then Err (UserErr 8) else Ok (VSeq false [VStr (zs "ok"); v; vint (zlen r)])
  else if id =? 7 then                                                      (* {0:'zero', 1:'one', 'b':'bee', None:'none'}[v] *)
    if py_eq v (vint 0) then Ok (VStr (zs "zero"))
    else if py_eq v (vint 1) then Ok (VStr (zs "one"))
    else if py_eq v (VStr [98]) then Ok (VStr (zs "bee"))
    else if py_eq v VNone then Ok (VStr (zs "none"))
    else match v with VSeq true _ => Err TypeErr | _ => Err KeyErr end
  else if id =? 9 then                                                      (* fails on tuples (of any length) *)
    match v with VSeq false _ => Err (UserErr 9) | _ => Ok (VSeq false [VStr (zs "ok"); v]) end
  else Err OtherErr.

Inductive conv := CFn (id : Z) | CDict (d : list (val * val)) | CNone.

Definition run_conv (c : conv) (v : val) (r : row) : res val :=
  match c with
  | CFn id => apply_conv id v r
  | CDict d => Ok (match v with
                   | VSeq true _ => v              (* unhashable: TypeError swallowed by dictconverter *)
                   | _ => match assoc_get v d with Some x => x | None => v end
                   end)
  | CNone => Ok v
  end.

(* transform_value *)
Definition transform_value (pol : policy) (errorvalue : val) (c : option conv) (v : val) (r : row) : res val :=
  match c with
  | None | Some CNone => Ok v
  | Some cv => match run_conv cv v r with
               | Ok x => Ok x
               | Err e => match pol with
                          | PolInline => Ok (exn_val e)
                          | PolTrue => Err e
                          | PolFalse => Ok errorvalue
                          end
               end
  end.

(* converters: (key, conv) in dict order; keys are field names or integers *)
Fixpoint resolve_convs (flds : list val) (cs : list (val * conv)) (acc : list (Z * conv)) : res (list (Z * conv)) :=
  match cs with
  | [] => Ok acc
  | (k, c) :: t =>
      let ki := if is_int k then Some (int_of k) else py_index k flds in
      match ki with
      | None => Err FieldSelectionErr
      | Some i => resolve_convs flds t (filter (fun p => negb (fst p =? i)) acc ++ [(i, c)])
      end
  end.

Definition conv_at (cf : list (Z * conv)) (i : Z) : option conv :=
  match find (fun p => fst p =? i) cf with Some p => Some (snd p) | None => None end.

Fixpoint transform_cells (pol : policy) (ev : val) (cf : list (Z * conv)) (i : Z) (cells : row) (whole : row) : res row :=
  match cells with
  | [] => Ok []
  | v :: t => match transform_value pol ev (conv_at cf i) v whole with
              | Err e => Err e
              | Ok x => match transform_cells pol ev cf (i + 1) t whole with Ok r => Ok (x :: r) | Err e => Err e end
              end
  end.

Definition convert_model (cs : list (val * conv)) (pol : policy) (errorvalue : val) (wh : option rpred) (t : table) : gen :=
  match t with
  | [] => match resolve_convs [] cs [] with Err e => ([], Some e) | Ok _ => ([], None) end
  | hdr :: rows =>
      let flds := map hdr_text hdr in
      match resolve_convs flds cs [] with
      | Err e => ([hdr], Some e)
      | Ok cf =>
          let '(o, e) := map_rows (fun r =>
            match wh with
            | None => transform_cells pol errorvalue cf 0 r r
            | Some w => match eval_rpred flds VNone w r with
                        | Err e => Err e
                        | Ok true => transform_cells pol errorvalue cf 0 r r
                        | Ok false => Ok r
                        end
            end) rows in
          (hdr :: o, e)
      end
  end.

(* ---- fieldmap / rowmap / rowmapmany (C19) ---------------------------------------------------------------------- *)
(* a mapping: source field (by name or index), or (source field, converter), or a function of the record *)
Inductive mapping := MField (f : val) | MFieldConv (f : val) (c : conv) | MRowFn (id : Z).

Definition run_mapping (flds : list val) (hdr : row) (m : mapping) (r : row) : res val :=
  match m with
  | MField f =>
      (* `m in hdr` -> itemgetter(m) on the Record, i.e. Record.__getitem__ *)
      record_get flds VNone r f
  | MFieldConv f c => match record_get flds VNone r f with Ok v => run_conv c v r | Err e => Err e end
  | MRowFn id => apply_rowfn id flds r
  end.

Definition fieldmap_model (ms : list (val * mapping)) (pol : policy) (errorvalue : val) (t : table) : gen :=
  match t with
  | [] => ([], None)
  | hdr :: rows =>
      let flds := map hdr_text hdr in
      let '(o, e) := map_rows (fun r =>
        mapM (fun om => match run_mapping flds hdr (snd om) r with
                        | Ok v => Ok v
                        | Err e => match pol with
                                   | PolInline => Ok (exn_val e)
                                   | PolTrue => Err e
                                   | PolFalse => Ok errorvalue
                                   end
                        end) ms) rows in
      (map fst ms :: o, e)
  end.

(* row mappers (zoo): Record -> row *)
Definition apply_rowmapper (id : Z) (flds : list val) (r : row) : res row :=
  if id =? 0 then match record_get flds VNone r (vint 0), record_get flds VNone r (vint 2) with
                  | Ok a, Ok b => Ok [a; b] | Err e, _ => Err e | _, Err e => Err e end         (* [row[0], row[2]] *)
  else if id =? 1 then match r with
                       | x :: _ => if py_eq x (vint 2) || py_eq x (VStr [120]) then Err (UserErr 1) else Ok [x; vint (zlen r)]
                       | [] => Err IndexErr
                       end                                                                        (* fails on key 2 / 'x' *)
  else if id =? 2 then match r with        (* returns a lazy row: the failure happens while the output tuple is built *)
                       | x :: _ => if py_eq x (vint 2) || py_eq x (VStr [120]) then Err (UserErr 2) else Ok [x; vint (zlen r)]
                       | [] => Err IndexErr
                       end
  else if id =? 3 then match r with        (* returns None for the failing rows: tuple(None) raises TypeError *)
                       | x :: _ => if py_eq x (vint 2) || py_eq x (VStr [120]) then Err TypeErr else Ok [x; vint (zlen r)]
                       | [] => Err IndexErr
                       end
  else Err OtherErr.

Fixpoint rowmap_rows (id : Z) (flds : list val) (pol : policy) (rows : list row) : list row * option exn :=
  match rows with
  | [] => ([], None)
  | r :: t =>
      match apply_rowmapper id flds r with
      | Ok o => let '(out, e) := rowmap_rows id flds pol t in (o :: out, e)
      | Err ex => match pol with
                  | PolInline => let '(out, e) := rowmap_rows id flds pol t in ([exn_val ex] :: out, e)
                  | PolTrue => ([], Some ex)
                  | PolFalse => rowmap_rows id flds pol t
                  end
      end
  end.

Definition rowmap_model (id : Z) (header : row) (pol : policy) (t : table) : gen :=
  match t with
  | [] => ([], None)
  | hdr :: rows => let '(o, e) := rowmap_rows id (map hdr_text hdr) pol rows in (header :: o, e)
  end.

(* row generators (zoo): Record -> rows produced, then possibly an exception *)
Definition apply_rowgen (id : Z) (flds : list val) (r : row) : list row * option exn :=
  if id =? 0 then
    (* yields (k, 'a', row[1]) then (k, 'v', row[2]); raises after the first row when k is 2 or 'x' *)
    match r with
    | k :: a :: rest =>
        let first := [k; VStr [97]; a] in
        if py_eq k (vint 2) || py_eq k (VStr [120]) then ([first], Some (UserErr 2))
        else match rest with
             | v :: _ => ([first; [k; VStr [118]; v]], None)
             | [] => ([first], Some IndexErr)
             end
    | _ => ([], Some IndexErr)
    end
  else ([], Some OtherErr).

Fixpoint rowmapmany_rows (id : Z) (flds : list val) (pol : policy) (rows : list row) : list row * option exn :=
  match rows with
  | [] => ([], None)
  | r :: t =>
      let '(produced, ex) := apply_rowgen id flds r in
      match ex with
      | None => let '(out, e) := rowmapmany_rows id flds pol t in (produced ++ out, e)
      | Some x => match pol with
                  | PolInline => let '(out, e) := rowmapmany_rows id flds pol t in (produced ++ [exn_val x] :: out, e)
                  | PolTrue => (produced, Some x)
                  | PolFalse => let '(out, e) := rowmapmany_rows id flds pol t in (produced ++ out, e)
                  end
      end
  end.

Definition rowmapmany_model (id : Z) (header : row) (pol : policy) (t : table) : gen :=
  match t with
  | [] => ([], None)
  | hdr :: rows => let '(o, e) := rowmapmany_rows id (map hdr_text hdr) pol rows in (header :: o, e)
  end.
