(* Tees.v — the pass-through views of petl as generator scripts.

   A generator body is modelled by the sequence of its effects in program order: [Write c] appends c to the sink,
   [Msg n] reports progress, [Yield x] suspends with x.  One next() runs the script up to and including the next Yield;
   abandoning the iterator (close / garbage collection) runs the `finally` clause, which flushes what was written so far
   and nothing else.  The scripts below transcribe

     petl/io/csv_py3.py   TeeCSVView.__iter__ , _writecsv
     petl/io/pickle.py    TeePickleView.__iter__ , _writepickle
     petl/io/text.py      _iterteetext , _writetext
     petl/io/html.py      TeeHTMLView.__iter__ , tohtml
     petl/util/timing.py  ProgressViewBase.__iter__ , ClockView.__iter__
     petl/util/base.py    TableWrapper.__iter__

   Serialisation of one row (csv.writer.writerow, pickle.dump, template.format, _write_row) is shared by the tee and the
   to* function of each format; a source item therefore carries its row together with the chunk the serialiser produces
   for it, so that the scripts are about WHEN and WHETHER a chunk is written, which is what the property is about.
   (For csv the chunk is computed by the model writer of Csv.v, see Dispatch.) *)
From Verif Require Import PyVal.
Open Scope Z_scope.

Inductive action (A : Type) :=
| Write (chunk : list Z)
| Msg (n : Z)
| Yield (x : A).
Arguments Write {A} _.
Arguments Msg {A} _.
Arguments Yield {A} _.

Section Script.
  Context {A : Type}.
  Notation script := (list (action A)).

  Fixpoint yields (s : script) : list A :=
    match s with
    | [] => []
    | Yield x :: t => x :: yields t
    | _ :: t => yields t
    end.

  Fixpoint writes (s : script) : list Z :=
    match s with
    | [] => []
    | Write c :: t => c ++ writes t
    | _ :: t => writes t
    end.

  Fixpoint msgs (s : script) : list Z :=
    match s with
    | [] => []
    | Msg n :: t => n :: msgs t
    | _ :: t => msgs t
    end.

  (* one next(): (what it returned, the rest of the script, what it wrote, what it reported) *)
  Fixpoint step (s : script) : option A * script * list Z * list Z :=
    match s with
    | [] => (None, [], [], [])
    | Write c :: t => let '(o, r, w, m) := step t in (o, r, c ++ w, m)
    | Msg n :: t => let '(o, r, w, m) := step t in (o, r, w, n :: m)
    | Yield x :: t => (Some x, t, [], [])
    end.

  (* k calls of next(), then the iterator is abandoned: rows obtained, sink contents, messages, exhausted? *)
  Fixpoint consume (k : nat) (s : script) : list A * list Z * list Z * bool :=
    match k with
    | O => ([], [], [], false)
    | S k' =>
        let '(o, r, w, m) := step s in
        match o with
        | None => ([], w, m, true)
        | Some x => let '(ys, w', m', fin) := consume k' r in (x :: ys, w ++ w', m ++ m', fin)
        end
    end.

  (* ---- the row loop shared by all tees: write the row, then yield it ------------------------------------------- *)
  Definition tee_rows (items : list (A * list Z)) : script :=
    flat_map (fun it => [Write (snd it); Yield (fst it)]) items.

  (* teecsv / teepickle:
       it = iter(table); try: hdr = next(it) except StopIteration: return
       if write_header: write(hdr);  yield hdr;  for row in it: write(row); yield row;  flush *)
  Definition tee_plain (write_header : bool) (src : list (A * list Z)) : script :=
    match src with
    | [] => []
    | h :: rows => (if write_header then [Write (snd h)] else []) ++ Yield (fst h) :: tee_rows rows
    end.

  (* tocsv:  rows = table if write_header else data(table);  for row in rows: writerow(row) *)
  Definition to_csv (write_header : bool) (src : list (A * list Z)) : list Z :=
    concat (map snd (if write_header then src else tl src)).

  (* topickle: hdr = next(it) (return when empty); if write_header: dump(hdr); for row in it: dump(row) *)
  Definition to_pickle (write_header : bool) (src : list (A * list Z)) : list Z :=
    match src with
    | [] => []
    | h :: rows => (if write_header then snd h else []) ++ concat (map snd rows)
    end.

  Definition opt_write (c : option (list Z)) : script := match c with Some x => [Write x] | None => [] end.
  Definition opt_chunk (c : option (list Z)) : list Z := match c with Some x => x | None => [] end.

  (* teetext: prologue; hdr = next(it) (when the table is empty: epilogue, flush, return); yield hdr; per row write +
     yield; epilogue *)
  Definition tee_text (prologue epilogue : option (list Z)) (src : list (A * list Z)) : script :=
    opt_write prologue ++
    match src with
    | [] => opt_write epilogue
    | h :: rows => Yield (fst h) :: tee_rows rows ++ opt_write epilogue
    end.

  (* totext: prologue; hdr = next(it) or []; per row write; epilogue *)
  Definition to_text (prologue epilogue : option (list Z)) (src : list (A * list Z)) : list Z :=
    opt_chunk prologue ++ concat (map snd (tl src)) ++ opt_chunk epilogue.

  (* teehtml: hdr = next(it); yield hdr  (or hdr = [] when the table is empty); _write_begin(hdr); per row write + yield;
     _write_end.  The chunk carried by the header item is what _write_begin produces for it. *)
  Definition tee_html (begin_empty end_ : list Z) (src : list (A * list Z)) : script :=
    match src with
    | [] => [Write begin_empty; Write end_]
    | h :: rows => Yield (fst h) :: Write (snd h) :: tee_rows rows ++ [Write end_]
    end.

  Definition to_html (begin_empty end_ : list Z) (src : list (A * list Z)) : list Z :=
    match src with
    | [] => begin_empty ++ end_
    | h :: rows => snd h ++ concat (map snd rows) ++ end_
    end.

  (* progress / log_progress: n = 0; for n, r in enumerate(inner): if n % batchsize == 0 and n > 0: message(n); yield r
     then the final message(n) with n the index of the last row (0 for a table without rows) *)
  Fixpoint progress_loop (batchsize : Z) (n : Z) (rows : list A) : script :=
    match rows with
    | [] => [Msg (n - 1)]
    | r :: t => (if (n mod batchsize =? 0) && (0 <? n) then [Msg n] else []) ++ Yield r :: progress_loop batchsize (n + 1) t
    end.
  Definition progress_script (batchsize : Z) (rows : list A) : script :=
    match rows with [] => [Msg 0] | _ => progress_loop batchsize 0 rows end.

  (* clock: while True: row = next(it) (return at StopIteration); yield row.     wrap: iter(inner) *)
  Definition passthrough_script (rows : list A) : script := map Yield rows.
End Script.
