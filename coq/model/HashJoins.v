(* HashJoins.v — models of petl.util.lookups (lookup / lookupone; dict keyed by ==, insertion ordered) and
   petl.transform.hashjoins (probe loops as written). *)
From Verif Require Import PyVal Rows ComparableGen AsIndicesGen Sort Basics Dedup Joins.
Open Scope Z_scope.

(* a Python dict as an insertion-ordered association list keyed by == *)
Definition pdict (V : Type) := list (val * V).
Fixpoint pd_get {V} (d : pdict V) (k : val) : option V :=
  match d with [] => None | (k', v) :: t => if py_eq k' k then Some v else pd_get t k end.
Fixpoint pd_set {V} (d : pdict V) (k : val) (v : V) : pdict V :=
  match d with
  | [] => [(k, v)]
  | (k', v') :: t => if py_eq k' k then (k', v) :: t else (k', v') :: pd_set t k v
  end.

(* lookup(table, key, value): key -> list of values (whole rows when value is None), in table order *)
Section Lookup.
  Variables (getk : row -> option val) (getv : row -> option val).
  Fixpoint lookup_loop (d : pdict (list val)) (rows : list row) : res (pdict (list val)) :=
    match rows with
    | [] => Ok d
    | r :: t => match getk r, getv r with
                | Some k, Some v => lookup_loop (match pd_get d k with
                                                 | Some l => pd_set d k (l ++ [v])
                                                 | None => pd_set d k [v]
                                                 end) t
                | _, _ => Err IndexErr
                end
    end.
  Fixpoint lookupone_loop (strict : bool) (d : pdict val) (rows : list row) : res (pdict val) :=
    match rows with
    | [] => Ok d
    | r :: t => match getk r with
                | None => Err IndexErr
                | Some k =>
                    match pd_get d k with
                    | Some _ => if strict then Err DuplicateKeyErr else lookupone_loop strict d t
                    | None => match getv r with
                              | Some v => lookupone_loop strict (pd_set d k v) t
                              | None => Err IndexErr
                              end
                    end
                end
    end.
End Lookup.

Definition whole_row (n : nat) (r : row) : option val :=
  match rowgetter (zrange n 0) r with Some l => Some (VSeq false l) | None => None end.

Definition setup_lookup (key : val) (value : option val) (t : table)
  : res ((row -> option val) * (row -> option val) * list row) :=
  let '(hdr, rows) := match t with [] => ([], []) | h :: r => (h, r) end in
  match asindices hdr key with
  | Err e => Err e
  | Ok [] => Err AssertionErr
  | Ok kidx =>
      match value with
      | None => Ok (raw_getkey kidx, whole_row (length hdr), rows)
      | Some v => match asindices hdr v with
                  | Err e => Err e
                  | Ok [] => Err AssertionErr
                  | Ok vidx => Ok (raw_getkey kidx, raw_getkey vidx, rows)
                  end
      end
  end.

Definition lookup_model (key : val) (value : option val) (t : table) : res (pdict (list val)) :=
  match setup_lookup key value t with
  | Err e => Err e
  | Ok (gk, gv, rows) => lookup_loop gk gv [] rows
  end.
Definition lookupone_model (strict : bool) (key : val) (value : option val) (t : table) : res (pdict val) :=
  match setup_lookup key value t with
  | Err e => Err e
  | Ok (gk, gv, rows) => lookupone_loop gk gv strict [] rows
  end.

(* ---- probe loops ------------------------------------------------------------------------------ *)
Definition rows_of_vals (l : list val) : list row := map (fun v => match v with VSeq _ r => r | _ => [] end) l.

Section Probe.
  Variables (lhdr_len : nat) (lkind rkind rvind : list Z) (missing : val).

  (* iterhashjoin / iterhashleftjoin: stream the left table *)
  Fixpoint hashjoin_loop (leftouter : bool) (rl : pdict (list val)) (L : list row) : list row * option exn :=
    match L with
    | [] => ([], None)
    | lrow :: t =>
        match raw_getkey lkind lrow with
        | None => ([], Some IndexErr)
        | Some k =>
            let here := match pd_get rl k with
                        | Some rrows => map (fun rrow => lrow ++ rgetv rvind missing rrow) (rows_of_vals rrows)
                        | None => if leftouter then [lrow ++ map (fun _ => missing) rvind] else []
                        end in
            let '(out, e) := hashjoin_loop leftouter rl t in (here ++ out, e)
        end
    end.

  (* iterhashrightjoin: stream the right table *)
  Fixpoint hashrightjoin_loop (ll : pdict (list val)) (R : list row) : list row * option exn :=
    match R with
    | [] => ([], None)
    | rrow :: t =>
        match raw_getkey rkind rrow with
        | None => ([], Some IndexErr)
        | Some k =>
            let here := match pd_get ll k with
                        | Some lrows => map (fun lrow => lrow ++ rgetv rvind missing rrow) (rows_of_vals lrows)
                        | None => join_right_only lhdr_len lkind rkind rvind missing [rrow]
                        end in
            let '(out, e) := hashrightjoin_loop ll t in (here ++ out, e)
        end
    end.

  Fixpoint hashlookupjoin_loop (rl : pdict val) (L : list row) : list row * option exn :=
    match L with
    | [] => ([], None)
    | lrow :: t =>
        match raw_getkey lkind lrow with
        | None => ([], Some IndexErr)
        | Some k =>
            let here := match pd_get rl k with
                        | Some (VSeq _ rrow) => lrow ++ rgetv rvind missing rrow
                        | _ => lrow ++ map (fun _ => missing) rvind
                        end in
            let '(out, e) := hashlookupjoin_loop rl t in (here :: out, e)
        end
    end.
End Probe.

Inductive hjoinkind := HJoin | HLeft | HRight | HLookup.

Definition hashjoin_model (kind : hjoinkind) (lkey rkey : val) (missing : val) (lprefix rprefix : option val)
           (left right : table) : gen :=
  let l0 := stack1 missing left in
  let r0 := stack1 missing right in
  match l0, r0 with
  | lhdr :: L, rhdr :: R =>
      (* the lookup is built in __iter__ (hashlookupjoin: at the first next), before the key indices are resolved *)
      let build :=
        match kind with
        | HRight => match lookup_model lkey None l0 with Ok d => Ok (inl d) | Err e => Err e end
        | HLookup => match lookupone_model false rkey None r0 with Ok d => Ok (inr d) | Err e => Err e end
        | _ => match lookup_model rkey None r0 with Ok d => Ok (inl d) | Err e => Err e end
        end in
      match build with
      | Err e => ([], Some e)
      | Ok d =>
          match asindices lhdr lkey, asindices rhdr rkey with
          | Err e, _ => ([], Some e)
          | _, Err e => ([], Some e)
          | Ok [], _ => ([], Some TypeErr)
          | _, Ok [] => ([], Some TypeErr)
          | Ok lkind, Ok rkind =>
              let rvind := filter (fun i => negb (z_in i rkind)) (zrange (length rhdr) 0) in
              let outhdr := prefixed lprefix lhdr ++ prefixed rprefix (map (fun i => match py_nth rhdr i with Some v => v | None => VNone end) rvind) in
              let body :=
                match kind, d with
                | HJoin, inl rl => hashjoin_loop lkind rvind missing false rl L
                | HLeft, inl rl => hashjoin_loop lkind rvind missing true rl L
                | HRight, inl ll => hashrightjoin_loop (length lhdr) lkind rkind rvind missing ll R
                | HLookup, inr rl => hashlookupjoin_loop lkind rvind missing rl L
                | _, _ => ([], Some OtherErr)
                end in
              (outhdr :: fst body, snd body)
          end
      end
  | _, _ => ([], Some StopIterLeak)
  end.

(* iterhashantijoin: no squaring up; set of right keys *)
Definition hashantijoin_model (lkey rkey : val) (left right : table) : gen :=
  match left, right with
  | lhdr :: L, rhdr :: R =>
      match asindices lhdr lkey, asindices rhdr rkey with
      | Err e, _ => ([lhdr], Some e)
      | _, Err e => ([lhdr], Some e)
      | Ok [], _ => ([lhdr], Some TypeErr)
      | _, Ok [] => ([lhdr], Some TypeErr)
      | Ok lkind, Ok rkind =>
          match all_some (map (raw_getkey rkind) R) with
          | None => ([lhdr], Some IndexErr)
          | Some rkeys =>
              let '(out, e) :=
                (fix go (L : list row) : list row * option exn :=
                   match L with
                   | [] => ([], None)
                   | lrow :: t => match raw_getkey lkind lrow with
                                  | None => ([], Some IndexErr)
                                  | Some k => let '(o, e) := go t in
                                              ((if py_in k rkeys then [] else [lrow]) ++ o, e)
                                  end
                   end) L in
              (lhdr :: out, e)
          end
      end
  | _, _ => ([], Some StopIterLeak)
  end.
